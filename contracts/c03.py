"""C03 — numeric literals resolve to the number written."""
from .common import *
from .c01 import CLOSED as _C01_CLOSED   # R2 obligation is shared (tagged C03 there)

NP = NUM + 'number/parsers.py::BaseNumberParser.'


def _parser(dec, grp, multi=False, nonstd=False):
    return Rec(NUM + 'number/parsers.py::BaseNumberParser',
               dict(config=Config(values=dict(decimal_separator_char=Const(dec), non_decimal_separator_char=Const(grp),
                                              is_multi_decimal_separator_culture=Const(multi))),
                    is_non_standard_separator_variant=Const(nonstd), supported_types=Const([])))


def _literal_contracts():
    out = []
    layouts = [   # (digit groups, fraction digits)
        ((1,), 0), ((2,), 0), ((3,), 0), ((5,), 0), ((8,), 0),
        ((1, 3), 0), ((2, 3), 0), ((3, 3), 0), ((1, 3, 3), 0),
        ((1,), 1), ((2,), 2), ((1,), 3), ((3,), 4), ((4,), 2),
        ((1, 3), 2), ((2, 3), 1), ((1, 3, 3), 2),
    ]
    cultures = [('en', '.', ',', False, False), ('dot-comma', ',', '.', False, False),
                ('multi', ',', '.', True, False), ('multi-nonstd', ',', '.', True, True)]
    for cname, dec, grp, multi, nonstd in cultures:
        # in the non-standard variant the written marks are swapped (e.g. es-mx writes 1,234.56)
        wdec, wgrp = (grp, dec) if nonstd else (dec, grp)
        for groups, nfrac in layouts:
            for neg in (False, True):
                if neg and (len(groups) > 2 or nfrac > 2):
                    continue
                params = {}
                gs = []
                for g, ln in enumerate(groups):
                    vs = []
                    for d in range(ln):
                        params[f'g{g}{d}'] = Int(0, 9)
                        vs.append(f'g{g}{d}')
                    gs.append('[' + ', '.join(vs) + ']')
                fs = []
                for d in range(nfrac):
                    params[f'f{d}'] = Int(0, 9)
                    fs.append(f'f{d}')
                G = '[' + ', '.join(gs) + ']'
                F = '[' + ', '.join(fs) + ']'
                params['self'] = _parser(dec, grp, multi, nonstd)
                params['digits_str'] = Expr(f'literal_text({G}, {wgrp!r}, {F}, {wdec!r}, {neg})')
                params['power'] = Const(1)
                req = []
                if len(groups) > 1:
                    req.append('g00 >= 1')      # a grouped literal does not start with 0
                lay = '_'.join(map(str, groups)) + (f'f{nfrac}' if nfrac else '') + ('n' if neg else '')
                out.append(Contract(f'c03.digital_value.{cname}.{lay}', NP + '_get_digital_value', ['C03'], unroll=24,
                                    decorators=['precision'], params=params, requires=req,
                                    bounded=None,
                                    ensures=[('value-is-the-number-written', f'result == literal_value({G}, {F}, {neg})')],
                                    note='layout of the literal fixed, digit values symbolic; Decimal arithmetic as exact reals'))
    return out


CONTRACTS = _literal_contracts()
CLOSED = []

CI = NUM + 'culture.py::CultureInfo.'


def _format_contracts():
    out = []
    for code, dec in (('en-us', '.'), ('fr-fr', ','), ('de-de', ','), ('es-mx', '.'), ('zh-cn', '.')):
        for ni, nf, neg in ((1, 0, False), (3, 0, True), (7, 0, False), (1, 2, False), (4, 3, True), (2, 5, False)):
            params = {}
            iv = []
            for d in range(ni):
                params[f'i{d}'] = Int(0, 9)
                iv.append(f'i{d}')
            fv = []
            for d in range(nf):
                params[f'f{d}'] = Int(0, 9)
                fv.append(f'f{d}')
            I_ = '[' + ', '.join(iv) + ']'
            F_ = '[' + ', '.join(fv) + ']'
            params['self'] = Rec(NUM + 'culture.py::CultureInfo', dict(code=Const(code)))
            params['value'] = Expr(f'literal_text([{I_}], "", {F_}, ".", {neg})')
            out.append(Contract(f'c03.format.{code}.i{ni}f{nf}{"n" if neg else ""}', CI + 'format', ['C03'], params=params, unroll=16,
                                requires=['i0 >= 1'] if ni > 1 else [],
                                ensures=[('same-digits-with-the-culture-decimal-mark-no-grouping-no-trailing-zeros',
                                          f'result == literal_text([{I_}], "", strip_trailing_zeros({F_}), {dec!r}, {neg})')],
                                note='value given by its canonical str(): optional -, digits, optional .digits (no exponent)'))
    return out


CONTRACTS += _format_contracts()

_DPR = Rec(RT + 'parser.py::ParseResult', dict(start=Expr('source.start'), length=Expr('source.length'), text=Expr('source.text'),
                                               type=Str(), data=Const(None), meta_data=Const(None), value=Expr('v'),
                                               resolution_str=Const(None)))
CONTRACTS += [
    Contract('c03.parser.parse.digits', NP + 'parse', ['C03', 'C01'], decorators=['precision'],
             modular=['id:c03.digit_number_parse.env'],
             params=dict(v=Real(0), neg=Bool(), sign=Str(8),
                         self=Rec(NUM + 'number/parsers.py::BaseNumberParser',
                                  dict(config=Config(values=dict(lang_marker=Const('Eng'),
                                                                 culture_info=Config(funcs=dict(format=(['real'], 'str', None, None))))),
                                       supported_types=Const([]), arabic_number_regex=Const('arabic_number_regex'))),
                         source=Rec(RT + 'extractor.py::ExtractResult', dict(start=Int(0), length=Int(1), text=Str(), type=Str(),
                                                                             data=Const('Num'), meta_data=Const(None)))),
             regex_env={'negative_number_sign_regex': {'when': 'neg', 'groups': {1: 'sign'}}, 'arabic_number_regex': 'any'},
             ensures=[('span-unchanged', 'result.start == old(source).start and result.length == old(source).length'),
                      ('value-negated-iff-a-sign-term-was-matched', 'result.value == (-v if neg else v)'),
                      ('resolution-is-the-culture-format-of-the-value',
                       'result.resolution_str == self.config.culture_info.format(result.value)')]),
    Contract('c03.digit_number_parse.env', NP + '_digit_number_parse', ['C03'], returns=_DPR,
             params=dict(ext_result=Opaque()), ensures=[],
             assumed='at the call site in BaseNumberParser.parse the digit sub-parser returns some value v for the sign-stripped text'),
]

_BPR = Rec(RT + 'parser.py::ParseResult', dict(start=Expr('source.start'), length=Expr('source.length'), text=Str(), type=Str(),
                                               data=Const(None), meta_data=Const(None), value=Real(), resolution_str=Expr('number_res')))
CONTRACTS += [
    Contract('c03.percentage_parser.parse', NUM + 'number/parsers.py::BasePercentageParser.parse', ['C03', 'C01'],
             decorators=['precision'], modular=['id:c03.base_parse.env'],
             params=dict(i0=Int(1, 9), i1=Int(0, 9), f0=Int(0, 9), number_res=Expr('literal_text([[i0, i1]], "", [f0], ".", False)'),
                         num_text=Str(), num_er=Rec(RT + 'extractor.py::ExtractResult', dict(start=Int(0), length=Int(1), text=Str(), type=Str(),
                                                                                             data=Const('Num'), meta_data=Const(None))),
                         self=Rec(NUM + 'number/parsers.py::BasePercentageParser', {}),
                         source=Rec(RT + 'extractor.py::ExtractResult', dict(start=Int(0), length=Int(1), text=Str(), type=Str(),
                                                                             data=Expr('[num_text, num_er]'), meta_data=Const(None)))),
             ensures=[('value-of-the-number-followed-by-percent', 'result.resolution_str == number_res + "%"'),
                      ('span-and-original-text-kept', 'result.start == old(source).start and result.length == old(source).length and '
                                                      'result.text == old(source).text')]),
    Contract('c03.base_parse.env', NP + 'parse', ['C03'], returns=_BPR, params=dict(self=Opaque(), source=Opaque()), ensures=[],
             assumed='at the call site in BasePercentageParser.parse the number parser resolves the embedded number to number_res'),
]


def _cjk_parser():
    return Rec(NUM + 'number/cjk_parsers.py::CJKNumberParser',
               dict(config=Config(values=dict(decimal_separator_char=Const('.'), non_decimal_separator_char=Const(','),
                                              is_multi_decimal_separator_culture=Const(False), full_to_half_map=Const({}))),
                    is_non_standard_separator_variant=Const(False), supported_types=Const([])))


CONTRACTS += [
    Contract(f'c03.cjk.get_digit_value.{"negative" if neg else "positive"}.{nfrac}', NUM + 'number/cjk_parsers.py::CJKNumberParser.get_digit_value',
             ['C03'], unroll=24, decorators=['precision'],
             params=dict(dict(g00=Int(0, 9), g01=Int(0, 9), **{f'f{d}': Int(0, 9) for d in range(nfrac)}),
                         self=_cjk_parser(), power=Const(1),
                         source=Expr(f'literal_text([[g00, g01]], ",", [{", ".join(f"f{d}" for d in range(nfrac))}], ".", {neg})')),
             regex_env={'negative_number_sign_regex': 'match' if neg else 'none'},
             ensures=[('value-is-the-number-written-with-its-sign',
                       f'result == literal_value([[g00, g01]], [{", ".join(f"f{d}" for d in range(nfrac))}], {neg})')],
             note='two integer digits' + (f' and {nfrac} fraction digit(s)' if nfrac else '') + ', sign term of one character matched by the '
                  'sign regex (environment value); full-width map empty (digits already half-width)')
    for neg in (False, True) for nfrac in (0, 1)
]
