"""C15 — TIMEX resolver and range resolver (datatypes-timex-expression)."""
from .common import *

R = TX + 'timex_resolver.py::TimexResolver.'
H = TX + 'timex_date_helpers.py::TimexDateHelpers.'
V = TX + 'timex_value.py::TimexValue.'

CONTRACTS = [
    Contract('c15.month_date_range', R + 'month_date_range', ['C15'],
             params=dict(year=Int(1, 9998), month=MONTH),
             ensures=[('start-first-of-month', 'result[0] == date_str(year, month, 1)'),
                      ('end-first-of-next-month-incl-december',
                       'result[1] == date_str(next_month(year, month)[0], next_month(year, month)[1], 1)')]),
    Contract('c15.year_date_range', R + 'year_date_range', ['C15'],
             params=dict(year=Int(1, 9998)),
             ensures=[('start', 'result[0] == date_str(year, 1, 1)'),
                      ('end', 'result[1] == date_str(year + 1, 1, 1)')]),
    Contract('c15.week_date_range', R + 'week_date_range', ['C15'],
             params=dict(year=Int(1950, 2090), week_of_year=Int(1, 53)),
             requires=['week_of_year <= weeks_in_iso_year(year)'],
             ensures=[('start-is-monday-of-iso-week',
                       'result[0] == date_str_of_ordinal(iso_week_monday(year, week_of_year))'),
                      ('end-is-start-plus-7',
                       'result[1] == date_str_of_ordinal(iso_week_monday(year, week_of_year) + 7)')]),
    Contract('c15.date_of_last_day', H + 'date_of_last_day', ['C15'],
             params=dict(day=Int(0, 6), reference_date=DateTime(1950, 2090)),
             ensures=[('weekday', 'result.weekday() == day'),
                      ('strictly-before-within-a-week',
                       '1 <= (reference_date - result).days and (reference_date - result).days <= 7'),
                      ('time-of-day-kept', 'sec_of_day(result) == sec_of_day(reference_date)')]),
    Contract('c15.date_of_next_day', H + 'date_of_next_day', ['C15'],
             params=dict(day=Int(0, 6), reference_date=DateTime(1950, 2090)),
             ensures=[('weekday', 'result.weekday() == day'),
                      ('strictly-after-within-a-week',
                       '1 <= (result - reference_date).days and (result - reference_date).days <= 7'),
                      ('time-of-day-kept', 'sec_of_day(result) == sec_of_day(reference_date)')]),
    Contract('c15.date_value', V + 'date_value', ['C15', 'C14'],
             params=dict(timex_property=timex_sort(year=Opt(YEAR), month=Opt(MONTH), day_of_month=Opt(DAY))),
             ensures=[('definite', 'implies(timex_property.year is not None and timex_property.month is not None and '
                                   'timex_property.day_of_month is not None, '
                                   'result == date_str(timex_property.year, timex_property.month, timex_property.day_of_month))'),
                      ('else-empty', 'implies(timex_property.year is None or timex_property.month is None or '
                                     'timex_property.day_of_month is None, result == "")')]),
    Contract('c15.time_value', V + 'time_value', ['C15'],
             params=dict(timex_property=timex_sort(time=True)),
             ensures=[('hh:mm:ss', 'result == time_str(timex_property.hour, timex_property.minute, timex_property.second)')]),
    Contract('c15.duration_value', V + 'duration_value', ['C15'],
             params=dict(timex_property=timex_sort(years=Opt(Real(0)), months=Opt(Real(0)), weeks=Opt(Real(0)),
                                                   days=Opt(Real(0)), hours=Opt(Real(0)), minutes=Opt(Real(0)),
                                                   seconds=Opt(Real(0)))),
             requires=['exactly_one_duration_unit(timex_property)'],
             ensures=[('length-in-seconds', 'result == str(duration_seconds(timex_property))')]),
    Contract('c15.last_date_value.weekday', R + 'last_date_value', ['C15'],
             params=dict(timex=timex_sort(day_of_week=Int(1, 7)), date=DateTime(1950, 2090)),
             ensures=[('that-weekday-immediately-before',
                       'result == date_str_of_ordinal(last_weekday_before(ordinal_of(date), timex.day_of_week))')]),
    Contract('c15.next_date_value.weekday', R + 'next_date_value', ['C15'],
             params=dict(timex=timex_sort(day_of_week=Int(1, 7)), date=DateTime(1950, 2090)),
             ensures=[('that-weekday-immediately-after',
                       'result == date_str_of_ordinal(next_weekday_after(ordinal_of(date), timex.day_of_week))')]),
]
