"""C15 — TIMEX resolver and range resolver (datatypes-timex-expression)."""
from .common import *

R = TX + 'timex_resolver.py::TimexResolver.'
H = TX + 'timex_date_helpers.py::TimexDateHelpers.'
V = TX + 'timex_value.py::TimexValue.'

CONTRACTS = [
    Contract('c15.month_date_range', R + 'month_date_range', ['C15'],
             params=dict(year=Int(1, 9998), month=MONTH),
             ensures=[('start-first-of-month', 'result[0] == date_str(year, month, 1)'),
                      ('end-first-of-next-month-incl-december',
                       'result[1] == date_str(next_month(year, month)[0], next_month(year, month)[1], 1)')]),
    Contract('c15.year_date_range', R + 'year_date_range', ['C15'],
             params=dict(year=Int(1, 9998)),
             ensures=[('start', 'result[0] == date_str(year, 1, 1)'),
                      ('end', 'result[1] == date_str(year + 1, 1, 1)')]),
    Contract('c15.week_date_range', R + 'week_date_range', ['C15'],
             params=dict(year=Int(1950, 2090), week_of_year=Int(1, 53)),
             requires=['week_of_year <= weeks_in_iso_year(year)'],
             ensures=[('start-is-monday-of-iso-week',
                       'result[0] == date_str_of_ordinal(iso_week_monday(year, week_of_year))'),
                      ('end-is-start-plus-7',
                       'result[1] == date_str_of_ordinal(iso_week_monday(year, week_of_year) + 7)')]),
    Contract('c15.date_of_last_day', H + 'date_of_last_day', ['C15'],
             params=dict(day=Int(0, 6), reference_date=DateTime(1950, 2090)),
             ensures=[('weekday', 'result.weekday() == day'),
                      ('strictly-before-within-a-week',
                       '1 <= (reference_date - result).days and (reference_date - result).days <= 7'),
                      ('time-of-day-kept', 'sec_of_day(result) == sec_of_day(reference_date)')]),
    Contract('c15.date_of_next_day', H + 'date_of_next_day', ['C15'],
             params=dict(day=Int(0, 6), reference_date=DateTime(1950, 2090)),
             ensures=[('weekday', 'result.weekday() == day'),
                      ('strictly-after-within-a-week',
                       '1 <= (result - reference_date).days and (result - reference_date).days <= 7'),
                      ('time-of-day-kept', 'sec_of_day(result) == sec_of_day(reference_date)')]),
    Contract('c15.date_value', V + 'date_value', ['C15', 'C14'],
             params=dict(timex_property=timex_sort(year=Opt(YEAR), month=Opt(MONTH), day_of_month=Opt(DAY))),
             ensures=[('definite', 'implies(timex_property.year is not None and timex_property.month is not None and '
                                   'timex_property.day_of_month is not None, '
                                   'result == date_str(timex_property.year, timex_property.month, timex_property.day_of_month))'),
                      ('else-empty', 'implies(timex_property.year is None or timex_property.month is None or '
                                     'timex_property.day_of_month is None, result == "")')]),
    Contract('c15.time_value', V + 'time_value', ['C15'],
             params=dict(timex_property=timex_sort(time=True)),
             ensures=[('hh:mm:ss', 'result == time_str(timex_property.hour, timex_property.minute, timex_property.second)')]),
    Contract('c15.duration_value', V + 'duration_value', ['C15'],
             params=dict(timex_property=timex_sort(years=Opt(Real(0)), months=Opt(Real(0)), weeks=Opt(Real(0)),
                                                   days=Opt(Real(0)), hours=Opt(Real(0)), minutes=Opt(Real(0)),
                                                   seconds=Opt(Real(0)))),
             requires=['exactly_one_duration_unit(timex_property)'],
             ensures=[('length-in-seconds', 'result == str(duration_seconds(timex_property))')]),
    Contract('c15.last_date_value.weekday', R + 'last_date_value', ['C15'], returns=Str(),
             params=dict(timex=timex_sort(day_of_week=Int(1, 7)), date=DateTime(1950, 2090)),
             ensures=[('that-weekday-immediately-before',
                       'result == date_str_of_ordinal(last_weekday_before(ordinal_of(date), timex.day_of_week))')]),
    Contract('c15.next_date_value.weekday', R + 'next_date_value', ['C15'], returns=Str(),
             params=dict(timex=timex_sort(day_of_week=Int(1, 7)), date=DateTime(1950, 2090)),
             ensures=[('that-weekday-immediately-after',
                       'result == date_str_of_ordinal(next_weekday_after(ordinal_of(date), timex.day_of_week))')]),
]

# the constraint ranges are built by TimexHelpers.daterange_from_timex from datetime.date objects
DRANGE = Rec(TX + 'date_range.py::DateRange', dict(start=DateTime(1950, 2090, date=True), end=DateTime(1950, 2090, date=True)))

CONTRACTS += [
    Contract('c15.dates_matching_day', H + 'dates_matching_day', ['C15'],
             params=dict(day=Int(0, 6), start=DateTime(1950, 2090), end=DateTime(1950, 2090)),
             requires=['start <= end', 'sec_of_day(start) == sec_of_day(end)'],
             loops={0: LoopSpec(
                 invariant=['ordinal_of(start) <= ordinal_of(d) and ordinal_of(d) <= ordinal_of(end)',
                            'sec_of_day(d) == sec_of_day(start)',
                            'len(result) == (ordinal_of(d) - first_match(ordinal_of(start), day) + 6) // 7',
                            'forall(lambda a: result[a] == date_with(first_match(ordinal_of(start), day) + 7 * a, sec_of_day(start)), '
                            '0, len(result))'],
                 decreases='ordinal_of(end) - ordinal_of(d)',
                 types={'result': Arr('dt')})},
             ensures=[('only-matching-days-inside-range',
                       'forall(lambda a: start <= result[a] and result[a] < end and result[a].weekday() == day, 0, len(result))'),
                      ('in-order', 'forall(lambda a, b: implies(a < b, result[a] < result[b]), 0, len(result), 0, len(result))'),
                      ('every-such-day-is-returned',
                       'forall(lambda o: implies(weekday_of_ordinal(o) == day, '
                       '0 <= (o - first_match(ordinal_of(start), day)) // 7 and (o - first_match(ordinal_of(start), day)) // 7 < len(result) '
                       'and result[(o - first_match(ordinal_of(start), day)) // 7] == date_with(o, sec_of_day(start))), '
                       'ordinal_of(start), ordinal_of(end))')]),
    Contract('c15.daterange.collapse_overlapping', TX + 'date_range.py::DateRange.collapse_overlapping', ['C15'],
             params=dict(self=DRANGE, range2=DRANGE),
             ensures=[('intersection', 'result.start == max(self.start, range2.start) and result.end == min(self.end, range2.end)')]),
    Contract('c15.date_from_timex', TX + 'timex_helpers.py::TimexHelpers.date_from_timex', ['C15'],
             params=dict(timex=timex_sort(year=Opt(YEAR), month=Opt(MONTH), day_of_month=Opt(DAY))),
             raises={'ValueError': 'not valid_date(timex.year if timex.year is not None else 2001, '
                                   'timex.month if timex.month is not None else 1, '
                                   'timex.day_of_month if timex.day_of_month is not None else 1)'},
             ensures=[('date-of-fields', 'ordinal_of(result) == ordinal(timex.year if timex.year is not None else 2001, '
                                         'timex.month if timex.month is not None else 1, '
                                         'timex.day_of_month if timex.day_of_month is not None else 1)')],
             note='the result is a datetime.date (no time of day)'),
]

RR = TX + 'timex_range_resolver.py::TimexRangeResolver.'
TH = TX + 'timex_helpers.py::TimexHelpers.'

CONTRACTS += [
    Contract('c15.resolve_date_range.year_month', R + 'resolve_date_range', ['C15'],
             params=dict(timex=timex_sort(year=Int(1, 9998), month=MONTH), date=DateTime(1950, 2090)),
             ensures=[('one-entry', 'len(result) == 1 and result[0].type == "daterange"'),
                      ('start', 'result[0].start == date_str(timex.year, timex.month, 1)'),
                      ('end-first-of-next-month',
                       'result[0].end == date_str(next_month(timex.year, timex.month)[0], next_month(timex.year, timex.month)[1], 1)')]),
    Contract('c15.resolve_date_range.year', R + 'resolve_date_range', ['C15'],
             params=dict(timex=timex_sort(year=Int(1, 9998)), date=DateTime(1950, 2090)),
             ensures=[('one-entry', 'len(result) == 1 and result[0].type == "daterange"'),
                      ('start', 'result[0].start == date_str(timex.year, 1, 1)'),
                      ('end-first-of-next-year', 'result[0].end == date_str(timex.year + 1, 1, 1)')]),
    Contract('c15.resolve_date_range.month', R + 'resolve_date_range', ['C15'],
             params=dict(timex=timex_sort(month=MONTH), date=DateTime(1950, 2090)),
             ensures=[('two-entries', 'len(result) == 2 and result[0].type == "daterange" and result[1].type == "daterange"'),
                      ('last-year', 'result[0].start == date_str(date.year - 1, timex.month, 1) and result[0].end == '
                                    'date_str(next_month(date.year - 1, timex.month)[0], next_month(date.year - 1, timex.month)[1], 1)'),
                      ('this-year', 'result[1].start == date_str(date.year, timex.month, 1) and result[1].end == '
                                    'date_str(next_month(date.year, timex.month)[0], next_month(date.year, timex.month)[1], 1)')]),
    Contract('c15.resolve_duration', R + 'resolve_duration', ['C15'],
             params=dict(timex=timex_sort(years=Opt(Real(0)), months=Opt(Real(0)), weeks=Opt(Real(0)),
                                          days=Opt(Real(0)), hours=Opt(Real(0)), minutes=Opt(Real(0)),
                                          seconds=Opt(Real(0)))),
             requires=['exactly_one_duration_unit(timex)'],
             ensures=[('length-in-seconds', 'len(result) == 1 and result[0].type == "duration" and '
                                            'result[0].value == str(duration_seconds(timex))')]),
    Contract('c15.resolve_date.weekday', R + 'resolve_date', ['C15'], modular=[R + 'last_date_value', R + 'next_date_value'],
             params=dict(timex=timex_sort(day_of_week=Int(1, 7)), date=DateTime(1950, 2090)),
             ensures=[('before-and-after',
                       'len(result) == 2 and result[0].type == "date" and result[1].type == "date" and '
                       'result[0].value == date_str_of_ordinal(last_weekday_before(ordinal_of(date), timex.day_of_week)) and '
                       'result[1].value == date_str_of_ordinal(next_weekday_after(ordinal_of(date), timex.day_of_week))'),
                      ('timex-kept', 'result[0].timex == "XXXX-WXX-" + str(timex.day_of_week) and result[1].timex == result[0].timex')]),
    Contract('c15.resolve_timex.dispatch.weekday', R + 'resolve_timex', ['C15'], modular=[R + 'last_date_value', R + 'next_date_value'],
             params=dict(timex=timex_sort(day_of_week=Int(1, 7)), date=DateTime(1950, 2090)),
             ensures=[('resolves-as-date',
                       'len(result) == 2 and '
                       'result[0].value == date_str_of_ordinal(last_weekday_before(ordinal_of(date), timex.day_of_week)) and '
                       'result[1].value == date_str_of_ordinal(next_weekday_after(ordinal_of(date), timex.day_of_week))')]),
    Contract('c15.resolve_timex.dispatch.duration', R + 'resolve_timex', ['C15'],
             params=dict(timex=timex_sort(years=Opt(Real(1)), months=Opt(Real(1)), weeks=Opt(Real(1)),
                                          days=Opt(Real(1)), hours=Opt(Real(1)), minutes=Opt(Real(1)),
                                          seconds=Opt(Real(1))), date=DateTime(1950, 2090)),
             requires=['exactly_one_duration_unit(timex)'],
             ensures=[('resolves-as-duration', 'len(result) == 1 and result[0].type == "duration" and '
                                               'result[0].value == str(duration_seconds(timex))')]),
    Contract('c15.resolve_timex.dispatch.year_month', R + 'resolve_timex', ['C15'],
             params=dict(timex=timex_sort(year=Int(1, 9998), month=Opt(MONTH)), date=DateTime(1950, 2090)),
             ensures=[('half-open-range',
                       'len(result) == 1 and result[0].type == "daterange" and '
                       'result[0].start == date_str(timex.year, timex.month if timex.month is not None else 1, 1) and '
                       'result[0].end == (date_str(next_month(timex.year, timex.month)[0], next_month(timex.year, timex.month)[1], 1) '
                       'if timex.month is not None else date_str(timex.year + 1, 1, 1))')]),
    Contract('c15.expand_datetime_range.no_duration', TH + 'expand_datetime_range', ['C15'],
             params=dict(timex=timex_sort(year=Int(1, 9998), month=Opt(MONTH))),
             ensures=[('start', 'result.start.year == timex.year and result.start.day_of_month == 1 and '
                                'result.start.month == (timex.month if timex.month is not None else 1)'),
                      ('end-is-first-day-of-next-period',
                       'result.end.day_of_month == 1 and '
                       '(result.end.year, result.end.month) == (next_month(timex.year, timex.month) if timex.month is not None '
                       'else (timex.year + 1, 1))')]),
    Contract('c15.resolve_definite_against_constraint', RR + 'resolve_definite_against_constraint', ['C15'],
             params=dict(timex=timex_sort(year=Int(1950, 2090), month=MONTH, day_of_month=DAY), constraint=DRANGE),
             requires=['valid_date(timex.year, timex.month, timex.day_of_month)'],
             ensures=[('inside-iff-returned',
                       'result == ([date_str(timex.year, timex.month, timex.day_of_month)] '
                       'if (ordinal_of(constraint.start) <= ordinal(timex.year, timex.month, timex.day_of_month) and '
                       'ordinal(timex.year, timex.month, timex.day_of_month) < ordinal_of(constraint.end)) else [""])')]),
    Contract('c15.resolve_time_against_constraint', RR + 'resolve_time_against_constraint', ['C15'],
             params=dict(timex=timex_sort(time=True),
                         constraint=Rec(TX + 'time_range.py::TimeRange',
                                        dict(start=Rec(TX + 'time.py::Time', dict(hour=Int(0, 24), minute=Int(0, 59), second=Int(0, 59))),
                                             end=Rec(TX + 'time.py::Time', dict(hour=Int(0, 24), minute=Int(0, 59), second=Int(0, 59)))))),
             ensures=[('inside-iff-returned',
                       'iff(len(result) == 1, secs(constraint.start) <= secs_of_timex(timex) and secs_of_timex(timex) < secs(constraint.end)) '
                       'and (len(result) == 0 or len(result) == 1)'),
                      ('same-time', 'implies(len(result) == 1, result[0] == timex_time_str(timex.hour, timex.minute, timex.second))')]),
]

CH_ = TX + 'timex_constraints_helper.py::TimexConstraintsHelper.'
HELPER = Rec(TX + 'timex_constraints_helper.py::TimexConstraintsHelper', {})


def _collapse_contracts():
    out = []
    for n in (1, 2, 3):
        out.append(Contract(f'c15.inner_collapse.n{n}', CH_ + 'inner_collapse', ['C15'],
                            params=dict(self=HELPER, ranges=ListOf(DRANGE, n)),
                            ensures=[('two-removed-one-added', f'implies(result, len(ranges) == {n} - 1)'),
                                     ('unchanged-when-no-overlap', f'implies(not result, len(ranges) == {n} and same_ranges(ranges, old(ranges)))'),
                                     ('new-range-is-an-intersection',
                                      'implies(result, is_pairwise_intersection(ranges[len(ranges) - 1], old(ranges)))'),
                                     ('others-kept', 'implies(result, all_from(ranges, old(ranges), len(ranges) - 1))')],
                            note=f'list length {n} (the property quantifies over 1-3 constraints)'))
        out.append(Contract(f'c15.collapse.n{n}', CH_ + 'collapse', ['C15'], unroll=n + 1,
                            params=dict(self=HELPER, ranges=ListOf(DRANGE, n)),
                            ensures=[('terminates-with-at-least-one-range', 'len(result) >= 1'),
                                     ('each-result-inside-an-original-range', 'all_inside_some(result, old(ranges))'),
                                     ('sorted-by-start', 'sorted_by_start(result)')],
                            note=f'list length {n}: loop unrolled completely (termination shown by exhausting all paths)'))
    return out


CONTRACTS += _collapse_contracts()
