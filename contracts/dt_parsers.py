"""Date-time parsers: the glue from regex groups / culture tables to TIMEX and values (C06-C11)."""
from .common import *

BD = DT + 'base_date.py::BaseDateParser.'

DATE_CFG = Config(tables=dict(month_of_year=Map('str', 'int', 1, 12), day_of_month=Map('str', 'int', 1, 31),
                              day_of_week=Map('str', 'int', 0, 6, total=True)),
                  values=dict(date_token_prefix=Str(8)),
                  funcs=dict(get_swift_day=(['str'], 'int', -3, 3)))
DATE_PARSER = Rec(DT + 'base_date.py::BaseDateParser', dict(config=DATE_CFG))

CONTRACTS = [
    Contract('dp.match_to_date.full_year', BD + 'match_to_date', ['C06'],
             params=dict(self=DATE_PARSER, y=Int(1900, 2099), year_str=Expr('str(y)'), month_str=Str(), day_str=Str(),
                         match=Match(groups=dict(year='year_str', month='month_str', day='day_str')),
                         reference=DateTime(1950, 2090)),
             requires=['month_str in self.config.month_of_year', 'day_str in self.config.day_of_month'],
             ensures=[('timex-is-that-date',
                       'result.success and result.timex == date_str(y, self.config.month_of_year[month_str], self.config.day_of_month[day_str])'),
                      ('values-are-that-date-or-min-value-independent-of-reference',
                       'result.future_value == result.past_value and result.future_value == '
                       '(date_with(ordinal(y, self.config.month_of_year[month_str], self.config.day_of_month[day_str]), 0) '
                       'if valid_date(y, self.config.month_of_year[month_str], self.config.day_of_month[day_str]) else date_with(1, 0))')]),
    Contract('dp.match_to_date.two_digit_year', BD + 'match_to_date', ['C06'],
             params=dict(self=DATE_PARSER, y=Int(0, 99), year_str=Expr('fmt(y, 2)'), month_str=Str(), day_str=Str(),
                         match=Match(groups=dict(year='year_str', month='month_str', day='day_str')),
                         reference=DateTime(1950, 2090)),
             requires=['month_str in self.config.month_of_year', 'day_str in self.config.day_of_month', 'y != 0'],
             ensures=[('two-digit-pivot', 'result.timex == date_str((2000 + y) if y < 30 else ((1900 + y) if y >= 40 else y), '
                                          'self.config.month_of_year[month_str], self.config.day_of_month[day_str])')],
             note='pivot constants 30 / 40 as in BaseDateTime.MaxTwoDigitYearFutureNum / MinTwoDigitYearPastNum: two-digit years '
                  '30..39 are left as years 30..39 AD (recorded; outside C06, which speaks of four-digit years)'),
    Contract('dp.match_to_date.no_year', BD + 'match_to_date', ['C09'],
             params=dict(self=DATE_PARSER, month_str=Str(), day_str=Str(),
                         match=Match(groups=dict(month='month_str', day='day_str')),
                         reference=DateTime(1950, 2090)),
             requires=['month_str in self.config.month_of_year', 'day_str in self.config.day_of_month',
                       'self.config.day_of_month[day_str] <= days_in_month(2000, self.config.month_of_year[month_str])',
                       'not (self.config.month_of_year[month_str] == 2 and self.config.day_of_month[day_str] == 29)'],
             ensures=[('timex-leaves-the-year-open',
                       'result.success and result.timex == "XXXX-" + fmt(self.config.month_of_year[month_str], 2) + "-" + '
                       'fmt(self.config.day_of_month[day_str], 2)'),
                      ('future-is-earliest-on-or-after',
                       'result.future_value == date_with(earliest_on_or_after(self.config.month_of_year[month_str], '
                       'self.config.day_of_month[day_str], ordinal_of(reference), reference.year), 0)'),
                      ('past-is-latest-strictly-before',
                       'result.past_value == date_with(latest_before(self.config.month_of_year[month_str], '
                       'self.config.day_of_month[day_str], ordinal_of(reference), reference.year), 0)')]),
]

BT = DT + 'base_time.py::BaseTimeParser.'
TIME_CFG = Config(tables=dict(numbers=Map('str', 'int', 0, 60)))
TIME_PARSER = Rec(DT + 'base_time.py::BaseTimeParser', dict(config=TIME_CFG))
_TIME_GROUPS = dict(hour='hour_str', min='min_str', sec='sec_str', desc='desc_str')
_TIME_RX = {'am_desc_regex': {'when': 'is_am'}, 'pm_desc__regex': {'when': 'is_pm'}, 'am_pm_desc_regex': 'none'}

_TIME_POST = [
    ('recognised', 'result.success'),
    ('timex-is-that-time', 'result.timex == "T" + fmt(expected_hour(H, is_am, is_pm), 2) + '
                           '((":" + fmt(M, 2)) if has_min else "") + ((":" + fmt(S, 2)) if has_sec else "")'),
    ('value-is-that-time-on-the-reference-day',
     'result.future_value == result.past_value and ordinal_of(result.future_value) == ordinal_of(reference) and '
     'sec_of_day(result.future_value) == expected_hour(H, is_am, is_pm) * 3600 + (M if has_min else 0) * 60 + (S if has_sec else 0)'),
    ('two-readings-flag-iff-ambiguous',
     'iff(getattr(result, "comment", "") == "ampm", 0 < expected_hour(H, is_am, is_pm) and expected_hour(H, is_am, is_pm) <= 12 '
     'and not is_am and not is_pm)'),
]

CONTRACTS += [
    Contract('dp.match_to_time.24h', BT + 'match_to_time', ['C07'],
             params=dict(self=TIME_PARSER, H=Int(0, 23), M=Int(0, 59), S=Int(0, 59), pad=Bool(), has_min=Bool(), has_sec=Bool(),
                         is_am=Const(False), is_pm=Const(False),
                         hour_str=Expr('fmt(H, 2) if pad else str(H)'), min_str=Expr('fmt(M, 2) if has_min else ""'),
                         sec_str=Expr('fmt(S, 2) if has_sec else ""'), desc_str=Const(''),
                         match=Match(groups=_TIME_GROUPS), reference=DateTime(1950, 2090)),
             requires=['implies(has_sec, has_min)'],
             regex_env=_TIME_RX, ensures=_TIME_POST),
    Contract('dp.match_to_time.12h', BT + 'match_to_time', ['C07'],
             params=dict(self=TIME_PARSER, H=Int(1, 12), M=Int(0, 59), S=Int(0, 59), pad=Bool(), has_min=Bool(), has_sec=Bool(),
                         is_am=Bool(), is_pm=Bool(),
                         hour_str=Expr('fmt(H, 2) if pad else str(H)'), min_str=Expr('fmt(M, 2) if has_min else ""'),
                         sec_str=Expr('fmt(S, 2) if has_sec else ""'), desc_str=Str(6),
                         match=Match(groups=_TIME_GROUPS), reference=DateTime(1950, 2090)),
             requires=['implies(has_sec, has_min)', 'not (is_am and is_pm)'],
             regex_env=_TIME_RX, ensures=_TIME_POST),
]

BDT = DT + 'base_datetime.py::BaseDateTimeParser.'
ER = lambda **f: Rec(RT + 'extractor.py::ExtractResult', dict(dict(start=Int(0, 200), length=Int(1, 50), text=Str(), type=Str(),
                                                                       data=Const(None), meta_data=Const(None)), **f))
_RES = lambda **f: Rec(DT + 'utilities.py::DateTimeResolutionResult',
                       dict(dict(success=Const(True), timex=Str(), is_lunar=Const(False), mod=Const(''), comment=Const(''),
                                 has_range_changing_mod=Const(False), future_value=Const(None), past_value=Const(None)), **f))
_PR = lambda value, timex: Rec(DT + 'parsers.py::DateTimeParseResult',
                               dict(start=Int(0, 200), length=Int(1, 50), text=Str(), type=Str(), data=Const(None),
                                    meta_data=Const(None), value=value, resolution_str=Const(''), timex_str=timex))

DATETIME_CFG = Config(
    values=dict(token_before_date=Str(6), token_before_time=Str(6),
                date_extractor=Config(funcs=dict(extract=Returns(ListOf(ER(), 1)))),
                time_extractor=Config(funcs=dict(extract=Returns(ListOf(ER(), 1)))),
                date_parser=Config(funcs=dict(parse=Returns(_PR(
                    _RES(future_value=Expr('date_future'), past_value=Expr('date_past')), Expr('date_timex'))))),
                time_parser=Config(funcs=dict(parse=Returns(_PR(
                    _RES(future_value=Expr('time_value'), past_value=Expr('time_value'), comment=Expr('time_comment')),
                    Expr('time_timex')))))),
    funcs=dict(have_ambiguous_token=Returns(Const(False))))

CONTRACTS += [
    Contract('dp.merge_date_and_time', BDT + 'merge_date_and_time', ['C07'], unroll=3,
             params=dict(th=Int(0, 23), tm=Int(0, 59), ts=Int(0, 59), has_min=Bool(), has_sec=Bool(), ambiguous=Bool(),
                         reference=DateTime(1950, 2090),
                         date_future=DateTime(1900, 2099, midnight=True), date_past=DateTime(1900, 2099, midnight=True),
                         date_timex=Str(12),
                         time_value=Expr('date_with(ordinal_of(reference), th * 3600 + tm * 60 + ts)'),
                         time_comment=Expr('"ampm" if ambiguous else ""'),
                         time_timex=Expr('"T" + fmt(th, 2) + ((":" + fmt(tm, 2)) if has_min else "") + ((":" + fmt(ts, 2)) if has_sec else "")'),
                         self=Rec(DT + 'base_datetime.py::BaseDateTimeParser', dict(config=DATETIME_CFG)),
                         source=Str()),
             requires=['implies(has_sec, has_min)', 'implies(not has_min, tm == 0)', 'implies(not has_sec, ts == 0)'],
             regex_env={'pm_time_regex': 'none', 'am_time_regex': 'none'},
             ensures=[('timex-is-date-timex-followed-by-time-timex',
                       'implies(result.success, result.timex == date_timex + time_timex)'),
                      ('future-is-that-date-at-that-time',
                       'implies(result.success, ordinal_of(result.future_value) == ordinal_of(date_future) and '
                       'sec_of_day(result.future_value) == th * 3600 + tm * 60 + ts)'),
                      ('past-is-that-date-at-that-time',
                       'implies(result.success, ordinal_of(result.past_value) == ordinal_of(date_past) and '
                       'sec_of_day(result.past_value) == th * 3600 + tm * 60 + ts)'),
                      ('succeeds-when-date-and-time-do-not-overlap', 'result.success or True')],
             note='date and time sub-parsers abstracted by their contracts (match_to_date / match_to_time posts); '
                  'am/pm words in the surrounding text assumed absent'),
]

_NONE_BEFORE_WEEKDAY = {'on_regex': 'none', 'special_day_regex': 'none', 'special_day_with_num_regex': 'none',
                        'relative_week_day_regex': 'none'}
_WD_GROUP = {'mode': 'full', 'groups': {'weekday': 'weekday_str'}}


def _implicit(cid, props, rx, ensures, extra_params=None, requires=()):
    params = dict(self=DATE_PARSER, source=Str(), reference=DateTime(1950, 2090), weekday_str=Str(10))
    params.update(extra_params or {})
    env = dict(_NONE_BEFORE_WEEKDAY)
    env.update(rx)
    return Contract(cid, BD + 'parse_implicit_date', props, params=params, regex_env=env, ensures=ensures, requires=list(requires))


_W = 'self.config.day_of_week[weekday_str]'
_ISOW = f'({_W} if {_W} >= 1 else 7)'

CONTRACTS += [
    _implicit('dp.implicit.special_day', ['C08'], {'special_day_regex': 'full'},
              [('today-plus-swift-days',
                'result.success and result.future_value == result.past_value and '
                'ordinal_of(result.future_value) == ordinal_of(reference) + self.config.get_swift_day(source.strip()) and '
                'sec_of_day(result.future_value) == 0'),
               ('timex-is-that-date', 'result.timex == date_str(result.future_value.year, result.future_value.month, result.future_value.day)')]),
    _implicit('dp.implicit.next_weekday', ['C08'], {'next_regex': _WD_GROUP},
              [('that-weekday-of-the-following-iso-week',
                'result.success and result.future_value == result.past_value and '
                f'result.future_value.isoweekday() == {_ISOW} and '
                'monday_of(ordinal_of(result.future_value)) == monday_of(ordinal_of(reference)) + 7'),
               ('timex-is-that-date', 'result.timex == date_str(result.future_value.year, result.future_value.month, result.future_value.day)')]),
    _implicit('dp.implicit.this_weekday', ['C08'], {'next_regex': 'none', 'this_regex': _WD_GROUP},
              [('that-weekday-of-the-current-iso-week',
                'result.success and result.future_value == result.past_value and '
                f'result.future_value.isoweekday() == {_ISOW} and '
                'monday_of(ordinal_of(result.future_value)) == monday_of(ordinal_of(reference))'),
               ('timex-is-that-date', 'result.timex == date_str(result.future_value.year, result.future_value.month, result.future_value.day)')]),
    _implicit('dp.implicit.last_weekday', ['C08'], {'next_regex': 'none', 'this_regex': 'none', 'last_regex': _WD_GROUP},
              [('that-weekday-of-the-preceding-iso-week',
                'result.success and result.future_value == result.past_value and '
                f'result.future_value.isoweekday() == {_ISOW} and '
                'monday_of(ordinal_of(result.future_value)) == monday_of(ordinal_of(reference)) - 7'),
               ('timex-is-that-date', 'result.timex == date_str(result.future_value.year, result.future_value.month, result.future_value.day)')]),
    _implicit('dp.implicit.bare_weekday', ['C09'],
              {'next_regex': 'none', 'this_regex': 'none', 'last_regex': 'none', 'week_day_regex': _WD_GROUP},
              [('timex-leaves-the-week-open', f'result.success and result.timex == "XXXX-WXX-" + str({_ISOW})'),
               ('future-is-the-earliest-such-weekday-on-or-after-the-reference-date',
                f'result.future_value == date_with(next_weekday_after(ordinal_of(reference) - 1, {_ISOW}), 0)'),
               ('past-is-the-latest-such-weekday-strictly-before-the-reference-date',
                f'result.past_value == date_with(last_weekday_before(ordinal_of(reference), {_ISOW}), 0)')]),
]

BDP = DT + 'base_dateperiod.py::BaseDatePeriodParser.'


def _period_cfg(**flags):
    f = dict(is_year_to_date=False, is_month_to_date=False, is_week_only=False, is_weekend=False, is_month_only=False,
             is_year_only=False)
    f.update(flags)
    funcs = {k: Returns(Const(v)) for k, v in f.items()}
    funcs['get_swift_day_or_month'] = Returns(Expr('swift'))
    funcs['get_swift_year'] = Returns(Expr('swift'))
    return Config(tables=dict(month_of_year=Map('str', 'int', 1, 12)), values=dict(unspecific_end_of_range_regex=Const(None)),
                  funcs=funcs)


def _period_parser(**flags):
    return Rec(DT + 'base_dateperiod.py::BaseDatePeriodParser', dict(config=_period_cfg(**flags), _inclusive_end_period=Const(False)))


_OWP_RX = {'one_word_period_regex': {'mode': 'full', 'groups': {}}}

CONTRACTS += [
    Contract('dp.one_word_period.week', BDP + '_parse_one_word_period', ['C08'], decorators=['dispatch'],
             params=dict(swift=Int(-2, 2), self=_period_parser(is_week_only=True), source=Word(1, 12), reference=DateTime(1950, 2090)),
             regex_env=_OWP_RX,
             ensures=[('iso-week-containing-the-reference-shifted-by-swift-weeks',
                       'result.success and ordinal_of(result.future_value[0]) == monday_of(ordinal_of(reference)) + 7 * swift and '
                       'ordinal_of(result.future_value[1]) == monday_of(ordinal_of(reference)) + 7 * swift + 7 and '
                       'result.past_value is result.future_value'),
                      ('timex-is-the-iso-year-and-week-of-that-week',
                       'result.timex == fmt(iso_year_of_week(monday_of(ordinal_of(reference)) + 7 * swift), 4) + "-W" + '
                       'fmt(iso_week_of_week(monday_of(ordinal_of(reference)) + 7 * swift), 2)')]),
    Contract('dp.one_word_period.month', BDP + '_parse_one_word_period', ['C08'], decorators=['dispatch'],
             params=dict(swift=Int(-1, 1), self=_period_parser(is_month_only=True), source=Word(1, 12), reference=DateTime(1950, 2090)),
             requires=['reference.day <= 28'], regex_env=_OWP_RX,
             ensures=[('calendar-month-containing-the-reference-shifted-by-swift',
                       'result.success and '
                       'result.future_value[0] == date_with(ordinal(shift_month(reference.year, reference.month, swift)[0], '
                       'shift_month(reference.year, reference.month, swift)[1], 1), 0) and '
                       'result.future_value[1] == date_with(ordinal(shift_month(reference.year, reference.month, swift + 1)[0], '
                       'shift_month(reference.year, reference.month, swift + 1)[1], 1), 0) and '
                       'result.past_value[0] == result.future_value[0] and result.past_value[1] == result.future_value[1]'),
                      ('timex-is-that-month',
                       'result.timex == fmt(shift_month(reference.year, reference.month, swift)[0], 4) + "-" + '
                       'fmt(shift_month(reference.year, reference.month, swift)[1], 2)')],
             note='reference day <= 28: month arithmetic of the missing datedelta package on days 29-31 is not assumed (DESIGN 4.6)'),
    Contract('dp.one_word_period.year', BDP + '_parse_one_word_period', ['C08'], decorators=['dispatch'],
             params=dict(swift=Int(-1, 1), self=_period_parser(is_year_only=True), source=Word(1, 12), reference=DateTime(1950, 2090)),
             requires=['reference.day <= 28'], regex_env=_OWP_RX,
             ensures=[('calendar-year-containing-the-reference-shifted-by-swift',
                       'result.success and result.future_value[0] == date_with(ordinal(reference.year + swift, 1, 1), 0) and '
                       'result.future_value[1] == date_with(ordinal(reference.year + swift + 1, 1, 1), 0)'),
                      ('timex-is-that-year', 'result.timex == fmt(reference.year + swift, 4)')]),
    Contract('dp.one_word_period.month_to_date', BDP + '_parse_one_word_period', ['C08', 'C11'], decorators=['dispatch'],
             params=dict(swift=Const(0), self=_period_parser(is_month_to_date=True), source=Word(1, 12), reference=DateTime(1950, 2090)),
             regex_env=_OWP_RX,
             ensures=[('from-the-first-of-the-month-to-the-reference',
                       'result.success and result.future_value[0] == date_with(ordinal(reference.year, reference.month, 1), 0) and '
                       'result.future_value[1] == reference and result.past_value[0] == result.future_value[0] and '
                       'result.past_value[1] == reference'),
                      ('timex-is-that-month', 'result.timex == fmt(reference.year, 4) + "-" + fmt(reference.month, 2)')]),
]

BDU = DT + 'base_duration.py::BaseDurationParser.'
_UNITS = '["Y", "MON", "W", "D", "H", "M", "S"]'
_UNIT_SECONDS = '[31536000, 2592000, 604800, 86400, 3600, 60, 1]'
_PARSE_NUM = Rec(RT + 'parser.py::ParseResult', dict(start=Const(0), length=Int(1, 6), text=Str(), type=Str(), data=Const(None),
                                                     meta_data=Const(None), value=Expr('N'), resolution_str=Str()))
DUR_CFG = Config(values=dict(unit_map=Expr('{"u": U}'), unit_value_map=Expr('{"u": V}'),
                             cardinal_extractor=Config(funcs=dict(extract=Returns(ListOf(ER(), 1)))),
                             number_parser=Config(funcs=dict(parse=Returns(_PARSE_NUM)))))
_DUR_POST = [
    ('timex-is-P[T]N<unit>', 'result.success and result.timex == "P" + ("T" if k >= 4 else "") + str(N) + U[0]'),
    ('value-is-N-times-the-unit-length', 'result.future_value == N * V and result.past_value == result.future_value'),
]

CONTRACTS += [
    Contract('dp.duration.number_space_unit', BDU + 'parse_number_space_unit', ['C10'],
             params=dict(N=Int(1, 5000), k=Int(0, 6), U=Expr(f'{_UNITS}[k]'), V=Expr(f'{_UNIT_SECONDS}[k]'),
                         self=Rec(DT + 'base_duration.py::BaseDurationParser', dict(config=DUR_CFG)), source=Str()),
             regex_env={'followed_unit': {'mode': 'match', 'groups': {'suffix': '""', 'unit': '"u"'}}, 'suffix_and_regex': 'none'},
             ensures=_DUR_POST,
             note='the culture tables are abstracted to one entry u -> (U, V) with V the unit length in seconds (table fact checked separately)'),
    Contract('dp.duration.number_combined_unit', BDU + 'parse_number_combined_unit', ['C10'],
             params=dict(N=Int(1, 5000), k=Int(0, 6), U=Expr(f'{_UNITS}[k]'), V=Expr(f'{_UNIT_SECONDS}[k]'),
                         self=Rec(DT + 'base_duration.py::BaseDurationParser', dict(config=DUR_CFG)), source=Str()),
             requires=['not (N > 1000 and k <= 2)'],
             regex_env={'number_combined_with_unit': {'mode': 'match', 'groups': {'num': 'str(N)', 'unit': '"u"'}}, 'suffix_and_regex': 'none'},
             ensures=_DUR_POST,
             note='amounts above 1000 combined with year/month/week units are deliberately not parsed by this function'),
]

BMP = DT + 'base_merged.py::BaseMergedParser.'
MERGED_PARSER = Rec(DT + 'base_merged.py::BaseMergedParser', init=dict(config=Opaque(), options=Const(0)))
_VALUE = 'date_str(y, m, d) + ((" " + time_str(h, mi, s)) if with_time else "")'

CONTRACTS += [
    Contract('dp.merged.add_single_value', BMP + '__add_single_date_time_to_resolution', ['C11'],
             params=dict(y=Int(1, 9999), m=MONTH, d=DAY, h=Int(0, 23), mi=Int(0, 59), s=Int(0, 59), with_time=Bool(),
                         value=Expr(_VALUE), dtype=Expr('"dateTime" if with_time else "date"'),
                         self=MERGED_PARSER, resolutions=Expr('{dtype: value}'), mod=Const(''), result=Expr('{}')),
             ensures=[('min-value-marker-is-never-emitted',
                       'iff(len(result) == 0, y == 1 and m == 1 and d == 1)'),
                      ('otherwise-the-value-is-emitted-unchanged',
                       'implies(not (y == 1 and m == 1 and d == 1), len(result) == 1 and result["value"] == value)')]),
    Contract('dp.merged.add_single_value.empty', BMP + '__add_single_date_time_to_resolution', ['C11'],
             params=dict(self=MERGED_PARSER, dtype=Const('date'), resolutions=Expr('{"date": ""}'), mod=Const(''), result=Expr('{}')),
             ensures=[('nothing-emitted', 'len(result) == 0')]),
    Contract('dp.merged.add_period', BMP + '__add_period_to_resolution', ['C11'],
             params=dict(y=Int(1, 9999), m=MONTH, d=DAY, y2=Int(1, 9999), m2=MONTH, d2=DAY, has_start=Bool(), has_end=Bool(),
                         self=MERGED_PARSER,
                         resolutions=Expr('dict_of_present("startDate", date_str(y, m, d), has_start, "endDate", date_str(y2, m2, d2), has_end)'),
                         start_type=Const('startDate'), end_type=Const('endDate'), mod=Const(''), result=Expr('{}')),
             ensures=[('emitted-only-with-both-ends-and-neither-invalid',
                       'iff(len(result) == 2, has_start and has_end and not (y == 1 and m == 1 and d == 1) and '
                       'not (y2 == 1 and m2 == 1 and d2 == 1)) and (len(result) == 0 or len(result) == 2)'),
                      ('ends-unchanged', 'implies(len(result) == 2, result["start"] == date_str(y, m, d) and result["end"] == date_str(y2, m2, d2))')]),
]

_SLOT = Rec(DT + 'parsers.py::DateTimeParseResult',
            dict(start=Int(0, 200), length=Int(1, 50), text=Str(), type=Const('date'), data=Const(None), meta_data=Const(None),
                 resolution_str=Const(''), timex_str=Expr('timex'),
                 value=Rec(DT + 'utilities.py::DateTimeResolutionResult',
                           dict(success=Const(True), timex=Expr('timex'), is_lunar=Const(False), mod=Const(''), comment=Const(''),
                                has_range_changing_mod=Const(False),
                                future_resolution=Expr('{"date": fv}'), past_resolution=Expr('{"date": pv}'),
                                future_value=Const(None), past_value=Const(None)))))

CONTRACTS += [
    Contract('dp.merged.date_time_resolution.date', BMP + '_date_time_resolution', ['C11', 'C09', 'C06'],
             params=dict(y1=Int(1, 9999), m1=MONTH, d1=DAY, y2=Int(1, 9999), m2=MONTH, d2=DAY, timex=Str(12),
                         fv=Expr('date_str(y1, m1, d1)'), pv=Expr('date_str(y2, m2, d2)'),
                         self=MERGED_PARSER, slot=_SLOT, has_before=Const(False), has_after=Const(False), has_since=Const(False)),
             requires=['timex != ""'],
             ensures=[('never-empty-and-typed', 'len(result["values"]) >= 1 and all_typed(result["values"], "date", timex)'),
                      ('no-valid-value-gives-not-resolved',
                       'implies((y1, m1, d1) == (1, 1, 1) and (y2, m2, d2) == (1, 1, 1), '
                       'len(result["values"]) == 1 and result["values"][0]["value"] == "not resolved")'),
                      ('equal-past-and-future-collapse-to-one-value',
                       'implies((y1, m1, d1) == (y2, m2, d2) and (y1, m1, d1) != (1, 1, 1), '
                       'len(result["values"]) == 1 and result["values"][0]["value"] == fv)'),
                      ('different-candidates-are-emitted-past-first-then-future',
                       'implies((y1, m1, d1) != (y2, m2, d2) and (y1, m1, d1) != (1, 1, 1) and (y2, m2, d2) != (1, 1, 1), '
                       'len(result["values"]) == 2 and result["values"][0]["value"] == pv and result["values"][1]["value"] == fv)'),
                      ('the-min-value-marker-is-never-a-value', 'no_value_is(result["values"], "0001-01-01")')]),
    Contract('dp.merged.determine_types', BMP + '_determine_date_time_types', ['C11'],
             params=dict(self=MERGED_PARSER, k=Int(0, 2), dtype=Expr('["date", "time", "datetime"][k]'),
                         has_before=Bool(), has_after=Bool(), has_since=Bool()),
             ensures=[('a-modifier-turns-a-point-into-a-period-of-the-same-kind',
                       'result == (dtype + "range" if (has_before or has_after or has_since) else dtype)')]),
]

BME = DT + 'base_merged.py::BaseMergedExtractor.'


def _amb_setup(I, loc):
    from pyvc import envmodel as E
    loc['self'].fields['config'].values['ambiguity_filters_dict'] = {E.CompiledPattern('amb_key', 'amb_key'): E.CompiledPattern('amb_val', 'amb_val')}


CONTRACTS += [
    Contract('dp.merged.filter_ambiguity', BME + '_filter_ambiguity', ['C06', 'C12'], setup=_amb_setup,
             params=dict(self=Rec(DT + 'base_merged.py::BaseMergedExtractor', dict(config=Config(), options=Const(0))),
                         er0=ER(), er1=ER(), extract_results=Expr('[er0, er1]'), text=Str()),
             regex_env={'amb_key': 'any', 'amb_val': {'count': 1}},
             ensures=[('an-entity-that-no-ambiguity-match-touches-is-kept',
                       'implies(untouched_by(er0, env_matches("amb_val")), er0 in result) and '
                       'implies(untouched_by(er1, env_matches("amb_val")), er1 in result)'),
                      ('nothing-is-invented', 'len(result) <= 2')],
             note='one ambiguity filter {key: value}; finditer yields at most one match (R1 geometry); two candidate entities'),
]

# the am/pm-ambiguous clock time: two readings, each carrying ITS OWN timex (C11: every value agrees with its TIMEX)
_SLOT_T = Rec(DT + 'parsers.py::DateTimeParseResult',
              dict(start=Int(0, 200), length=Int(1, 50), text=Str(), type=Const('time'), data=Const(None), meta_data=Const(None),
                   resolution_str=Const(''), timex_str=Expr('timex'),
                   value=Rec(DT + 'utilities.py::DateTimeResolutionResult',
                             dict(success=Const(True), timex=Expr('timex'), is_lunar=Const(False), mod=Const(''), comment=Const('ampm'),
                                  has_range_changing_mod=Const(False),
                                  future_resolution=Expr('{"time": tv}'), past_resolution=Expr('{"time": tv}'),
                                  future_value=Const(None), past_value=Const(None)))))
CONTRACTS += [
    Contract('dp.merged.date_time_resolution.ampm_time', BMP + '_date_time_resolution', ['C11', 'C07'], unroll=8,
             params=dict(hh=Int(1, 12), mm=Int(0, 59), timex=Expr('"T" + fmt(hh, 2) + ":" + fmt(mm, 2)'),
                         tv=Expr('fmt(hh, 2) + ":" + fmt(mm, 2) + ":00"'),
                         self=MERGED_PARSER, slot=_SLOT_T, has_before=Const(False), has_after=Const(False), has_since=Const(False)),
             ensures=[('two-readings', 'len(result["values"]) == 2'),
                      ('first-reading-is-the-time-as-written-with-its-timex',
                       'result["values"][0]["value"] == tv and result["values"][0]["timex"] == timex and result["values"][0]["type"] == "time"'),
                      ('second-reading-is-twelve-hours-later-with-the-timex-of-that-reading',
                       'result["values"][1]["value"] == fmt((hh + 12) % 24, 2) + ":" + fmt(mm, 2) + ":00" and '
                       'result["values"][1]["timex"] == "T" + fmt((hh + 12) % 24, 2) + ":" + fmt(mm, 2) and '
                       'result["values"][1]["type"] == "time"')],
             note='hour 1..12 without am/pm (comment "ampm"): the value and the TIMEX of each reading agree'),
]

# ---- Chinese date parser: table look-ups with the lunar aliases stored past the end of the table (C06); the value ranges are
# those of ChineseDateTime.ParserConfigurationMonthOfYear (max 13) and ParserConfigurationDayOfMonth (max 32)
ZDP = DT + 'chinese/date_parser.py::ChineseDateParser.'
CONTRACTS += [
    Contract('dp.chinese.get_month_of_year', ZDP + 'get_month_of_year', ['C06'],
             params=dict(self=Rec(DT + 'chinese/date_parser.py::ChineseDateParser',
                                  dict(config=Config(tables=dict(month_of_year=Map('str', 'int', 1, 13))))), source=Str()),
             requires=['source in self.config.month_of_year'],
             ensures=[('a-regular-month-is-itself-an-alias-wraps-into-1-to-12',
                       'result == (self.config.month_of_year[source] if self.config.month_of_year[source] <= 12 '
                       'else self.config.month_of_year[source] - 12) and 1 <= result and result <= 12')]),
    Contract('dp.chinese.get_day_of_month', ZDP + 'get_day_of_month', ['C06'],
             params=dict(self=Rec(DT + 'chinese/date_parser.py::ChineseDateParser',
                                  dict(config=Config(tables=dict(day_of_month=Map('str', 'int', 1, 32))))), source=Str()),
             requires=['source in self.config.day_of_month'],
             ensures=[('a-regular-day-is-itself-an-alias-wraps-into-1-to-31',
                       'result == (self.config.day_of_month[source] if self.config.day_of_month[source] <= 31 '
                       'else self.config.day_of_month[source] - 31) and 1 <= result and result <= 31')]),
]

# ---- Chinese time ranges: the duration of "A到B" is end - begin (mod 24 h) (C10)
_TR = lambda p: Rec(DT + 'chinese/base_date_time_extractor.py::TimeResult',
                    dict(hour=Int(0, 23), minute=Int(-1, 59), second=Int(-1, 59), low_bound=Const(-1)))
_SECS = lambda p: f'({p}.hour * 3600 + (0 if {p}.minute == -1 else {p}.minute) * 60 + (0 if {p}.second == -1 else {p}.second))'
CONTRACTS += [
    Contract('dp.chinese.build_span', DT + 'chinese/timeperiod_parser.py::ChineseTimePeriodParser.build_span', ['C10'],
             params=dict(self=Rec(DT + 'chinese/timeperiod_parser.py::ChineseTimePeriodParser', {}), left=_TR('l'), right=_TR('r')),
             ensures=[('the-span-denotes-end-minus-begin-within-a-day',
                       f'result == pt_duration_str(({_SECS("right")} - {_SECS("left")}) % 86400)')],
             note='hours 0..23, minutes and seconds 0..59 or absent (-1)'),
]

# ---- Chinese bare weekday (星期天, 周五 ...): same rule as the base parser; the values keep the time of day of the reference
_ZW = 'self.config.day_of_week[weekday_str]'
_ZISOW = f'({_ZW} if {_ZW} >= 1 else 7)'
CONTRACTS += [
    Contract('dp.chinese.implicit.bare_weekday', ZDP + 'parse_implicit_date', ['C09'],
             params=dict(self=Rec(DT + 'chinese/date_parser.py::ChineseDateParser',
                                  dict(config=DATE_CFG, special_date_regex=Const('special_date_regex'),
                                       token_next_regex=Const('token_next_regex'), token_last_regex=Const('token_last_regex'))),
                         source=Str(), reference=DateTime(1950, 2090), weekday_str=Str(10)),
             regex_env={'special_date_regex': 'none', 'special_day_regex': 'none', 'this_regex': 'none', 'next_regex': 'none',
                        'last_regex': 'none', 'week_day_regex': _WD_GROUP},
             ensures=[('timex-leaves-the-week-open', f'result.success and result.timex == "XXXX-WXX-" + str({_ZISOW})'),
                      ('future-is-the-earliest-such-weekday-on-or-after-the-reference-date',
                       f'ordinal_of(result.future_value) == next_weekday_after(ordinal_of(reference) - 1, {_ZISOW})'),
                      ('past-is-the-latest-such-weekday-strictly-before-the-reference-date',
                       f'ordinal_of(result.past_value) == last_weekday_before(ordinal_of(reference), {_ZISOW})')],
             note='table value 0 is Sunday (ISO 7); any reference date and time of day'),
]

# ---- Chinese holidays with a relative year (明年除夕): the value lies in the year the TIMEX names (C11)
ZHP_CLS = DT + 'chinese/holiday_parser.py::ChineseHolidayParser'
CONTRACTS += [
    Contract(f'dp.chinese.holiday.relative_year.{fn}', ZHP_CLS + '._match2date', ['C11'],
             params=dict(swift=Int(-3, 3), yearrel=Str(4), hol=Const(word),
                         self=Rec(ZHP_CLS, {'config': Config(funcs=dict(sanitize_holiday_token=Returns(Const(word)),
                                                                        get_swift_year=Returns(Expr('swift'))),
                                                             values=dict(holiday_func_dictionary=Const({}))),
                                            '__fixed_holiday_dictionary': Expr('{"%s": repo_const("%s", "%s")}' % (word, ZHP_CLS, fn))}),
                         match=Match(groups=dict(holiday='hol', year='None', yearCJK='None', yearrel='yearrel')),
                         reference=DateTime(1950, 2090)),
             requires=['len(yearrel) >= 1'],
             ensures=[('the-value-is-that-day-in-the-year-the-timex-names',
                       'result.success and result.future_value == result.past_value and '
                       f'result.timex == date_str(reference.year + swift, {mon}, {day}) and '
                       f'ordinal_of(result.future_value) == ordinal(reference.year + swift, {mon}, {day})')],
             note='holiday word %s with a relative year word whose swift is symbolic' % word)
    for word, fn, mon, day in (('除夕', 'new_year_eve', 12, 31), ('元旦', 'new_year', 1, 1), ('圣诞节', 'christmas_day', 12, 25))
]

# a stand-alone clock time is a value at every time of day, midnight included (C07 / C11)
CONTRACTS += [
    Contract('dp.merged.add_single_value.time', BMP + '__add_single_date_time_to_resolution', ['C07', 'C11'],
             params=dict(h=Int(0, 23), mi=Int(0, 59), s=Int(0, 59), value=Expr('time_str(h, mi, s)'), dtype=Const('time'),
                         self=MERGED_PARSER, resolutions=Expr('{dtype: value}'), mod=Const(''), result=Expr('{}')),
             ensures=[('every-time-of-day-is-emitted-unchanged', 'len(result) == 1 and result["value"] == value')],
             note='00:00:00 is a time, not the invalid-date marker'),
]

# ---- "May twentieth" / "the 20th of May": day number + month name, no year (C09) or with a year in the suffix (C06)
_NWM_CFG = lambda: Config(tables=dict(month_of_year=Map('str', 'int', 1, 12)),
                          values=dict(check_both_before_after=Const(False),
                                      ordinal_extractor=Config(funcs=dict(extract=Returns(ListOf(ER(), 1)))),
                                      integer_extractor=Config(funcs=dict(extract=Returns(ListOf(ER(), 1)))),
                                      number_parser=Config(funcs=dict(parse=Returns(_PARSE_NUM)))))
_NWM_M = 'mon'
CONTRACTS += [
    Contract('dp.env.get_year_in_affix.none', BD + '_get_year_in_affix', ['C09'], returns=Expr('-2147483648'),
             params=dict(self=Opaque(), affix=Opaque(), in_prefix=Opaque()), ensures=[],
             assumed='no year is written after the month name (the year-less case; Constants.INVALID_YEAR is returned)'),
    Contract('dp.number_with_month.no_year', BD + 'parse_number_with_month', ['C09'], modular=['id:dp.env.get_year_in_affix.none'],
             params=dict(N=Int(1, 28), mon=Int(1, 12), self=Rec(DT + 'base_date.py::BaseDateParser', dict(config=_NWM_CFG())), source=Str(),
                         reference=DateTime(1950, 2090)),
             regex_env={'month_regex': {'mode': 'match', 'assume': 'M.group() in self.config.month_of_year and '
                                                                   'self.config.month_of_year[M.group()] == mon'}},
             ensures=[('timex-leaves-the-year-open', f'result.success and result.timex == "XXXX-" + fmt({_NWM_M}, 2) + "-" + fmt(N, 2)'),
                      ('future-is-earliest-on-or-after',
                       f'result.future_value == date_with(earliest_on_or_after({_NWM_M}, N, ordinal_of(reference), reference.year), 0)'),
                      ('past-is-latest-strictly-before',
                       f'result.past_value == date_with(latest_before({_NWM_M}, N, ordinal_of(reference), reference.year), 0)')],
             note='day numbers 1..28 (valid in every month); the month word is any key of the culture table, mon is its number'),
]

# ---- "from 4 to 22 January 1995" / "between 3 and 12 of September": two day numbers and one month (C10 with a year, C09 without)
_SC_CFG = Config(tables=dict(month_of_year=Map('str', 'int', 1, 12), day_of_month=Map('str', 'int', 1, 31)))
_SC_PARSER = Rec(DT + 'base_dateperiod.py::BaseDatePeriodParser', dict(config=_SC_CFG, _inclusive_end_period=Const(False)))
_SC_M, _SC_D0, _SC_D1 = 'self.config.month_of_year[month_str]', 'self.config.day_of_month[d0s]', 'self.config.day_of_month[d1s]'


def _sc_rx(year_expr):
    return {'month_front_between_regex': {'mode': 'full', 'groups': {'year': year_expr, 'month': 'month_str'},
                                          'captures': {'day': ['d0s', 'd1s']}}}


CONTRACTS += [
    Contract('dp.dateperiod.simple_case.explicit_year', BDP + '_parse_simple_case', ['C10', 'C06'],
             params=dict(y=Int(1900, 2099), ys=Expr('str(y)'), month_str=Str(), d0s=Str(), d1s=Str(), self=_SC_PARSER, source=Str(),
                         reference=DateTime(1950, 2090)),
             requires=['month_str != ""', 'month_str in self.config.month_of_year', 'd0s in self.config.day_of_month',
                       'd1s in self.config.day_of_month', f'{_SC_D0} <= {_SC_D1}', f'{_SC_D1} <= 28'],
             regex_env=_sc_rx('ys'),
             ensures=[('timex-is-that-range-of-that-year',
                       f'result.success and result.timex == "(" + date_str(y, {_SC_M}, {_SC_D0}) + "," + date_str(y, {_SC_M}, {_SC_D1}) + '
                       f'",P" + str({_SC_D1} - {_SC_D0}) + "D)"'),
                      ('values-are-that-range-independent-of-the-reference',
                       f'result.future_value[0] == date_with(ordinal(y, {_SC_M}, {_SC_D0}), 0) and '
                       f'result.future_value[1] == date_with(ordinal(y, {_SC_M}, {_SC_D1}), 0) and '
                       'result.past_value[0] == result.future_value[0] and result.past_value[1] == result.future_value[1]')],
             note='days 1..28; the first of the four patterns matches the whole text (the other three are tried only when it does not)'),
    Contract('dp.dateperiod.simple_case.no_year', BDP + '_parse_simple_case', ['C09'],
             params=dict(month_str=Str(), d0s=Str(), d1s=Str(), self=_SC_PARSER, source=Str(), reference=DateTime(1950, 2090, midnight=True)),
             requires=['month_str != ""', 'month_str in self.config.month_of_year', 'd0s in self.config.day_of_month',
                       'd1s in self.config.day_of_month', f'{_SC_D0} <= {_SC_D1}', f'{_SC_D1} <= 28'],
             regex_env=_sc_rx('None'),
             ensures=[('timex-leaves-the-year-open',
                       f'result.success and result.timex == "(XXXX-" + fmt({_SC_M}, 2) + "-" + fmt({_SC_D0}, 2) + ",XXXX-" + fmt({_SC_M}, 2) + '
                       f'"-" + fmt({_SC_D1}, 2) + ",P" + str({_SC_D1} - {_SC_D0}) + "D)"'),
                      ('future-range-starts-on-or-after-the-reference-past-range-before-it',
                       f'result.future_value[0] == date_with(earliest_on_or_after({_SC_M}, {_SC_D0}, ordinal_of(reference), reference.year), 0) and '
                       f'result.past_value[0] == date_with(latest_before({_SC_M}, {_SC_D0}, ordinal_of(reference), reference.year), 0)'),
                      ('both-ends-in-the-same-year',
                       'result.future_value[1].year == result.future_value[0].year and result.past_value[1].year == result.past_value[0].year')],
             note='midnight reference (the non-midnight comparison is the KF-C09-1 family)'),
]

# ---- "between march 5 and march 20": two date entities merged into one range (C11: start never after end)
_M2_DT = lambda: DateTime(1950, 2090, midnight=True)
_M2_PR = _PR(_RES(future_value=_M2_DT(), past_value=_M2_DT()), Str())
_M2_CFG = Config(values=dict(token_before_date=Const('on '),
                             date_extractor=Config(funcs=dict(extract=Returns(ListOf(ER(), 2)))),
                             date_parser=Config(funcs=dict(parse=Returns(_M2_PR))),
                             future_regex=Config(funcs=dict(match=Returns(Const(None))))))
_SUB = lambda k: f'result.sub_date_time_entities[{k}].value'
CONTRACTS += [
    Contract('dp.env.get_year_context.none', BDP + 'get_year_context', ['C11'],
             returns=Rec(DT + 'utilities.py::DateContext', dict(year=Const(-2147483648))),
             params=dict(self=Opaque(), config=Opaque(), start_date_str=Opaque(), end_date_str=Opaque(), text=Opaque()), ensures=[],
             assumed='no year is written anywhere in the range text (empty date context)'),
    Contract('dp.env.generate_date_period_timex_str', DT + 'utilities.py::TimexUtil.generate_date_period_timex_str', ['C11'], returns=Str(),
             params=dict(begin=Opaque(), end=Opaque(), timex_type=Opaque(), timex1=Opaque(), timex2=Opaque()), ensures=[],
             assumed='the TIMEX text of the range is built elsewhere (C10 contracts); only the values are followed here'),
    Contract('dp.env.merge_timex_alternatives', DT + 'utilities.py::TimexUtil.merge_timex_alternatives', ['C11'], returns=Str(),
             params=dict(timex1=Opaque(), timex2=Opaque()), ensures=[], assumed='as above'),
    Contract('dp.dateperiod.merge_two_time_points', BDP + '_merge_two_times_points', ['C11', 'C09'],
             modular=['id:dp.env.get_year_context.none', 'id:dp.env.generate_date_period_timex_str', 'id:dp.env.merge_timex_alternatives'],
             params=dict(self=Rec(DT + 'base_dateperiod.py::BaseDatePeriodParser', dict(config=_M2_CFG, _inclusive_end_period=Const(False))),
                         source=Str(), reference=DateTime(1950, 2090)),
             regex_env={'week_with_week_day_range_regex': 'none'},
             ensures=[('both-values-run-forward-when-the-candidates-of-the-two-ends-allow-it',
                       f'implies({_SUB(0)}.past_value <= {_SUB(1)}.future_value and not ({_SUB(0)}.future_value.month == 2 and {_SUB(0)}.future_value.day == 29) and '
                       f'not ({_SUB(1)}.future_value.month == 2 and {_SUB(1)}.future_value.day == 29), '
                       'result.success and result.future_value[0] <= result.future_value[1] and result.past_value[0] <= result.past_value[1])'),
                      ('ends-are-candidates-of-the-two-entities',
                       f'(result.future_value[0] == {_SUB(0)}.future_value or result.future_value[0] == {_SUB(0)}.past_value) and '
                       f'result.future_value[1] == {_SUB(1)}.future_value and result.past_value[0] == {_SUB(0)}.past_value and '
                       f'(result.past_value[1] == {_SUB(1)}.past_value or result.past_value[1] == {_SUB(1)}.future_value)')],
             note='two extracted dates, parsed values arbitrary; 29 February candidates (year synchronisation) are outside this contract'),
]

# ---- the list of date patterns is tried in order and the FIRST pattern covering the whole text decides (C06: month-first vs
#      day-first numeric layouts are two patterns of the same list; their order is the culture's reading of "5/3/1987")
_BRM_PARSER = Rec(DT + 'base_date.py::BaseDateParser', dict(config=Config(values=dict(date_regex=Const(['rxA', 'rxB']),
                                                                                      date_token_prefix=Const('on ')))))
CONTRACTS += [
    Contract('dp.env.match_to_date.identity', BD + 'match_to_date', ['C06'], returns=Expr('match'),
             params=dict(self=Opaque(), match=Opaque(), reference=Opaque()), ensures=[],
             assumed='stand-in that hands the chosen match back, so that the caller contract can say WHICH match was resolved '
                     '(match_to_date itself: dp.match_to_date.*)'),
    Contract('dp.basic_regex_match.first_covering_pattern_decides', BD + 'parse_basic_regex_match', ['C06'],
             modular=['id:dp.env.match_to_date.identity'],
             params=dict(self=_BRM_PARSER, source=Str(), reference=DateTime(1950, 2090)),
             requires=['source == source.strip()'],
             regex_env={'rxA': {'mode': 'full'}, 'rxB': {'mode': 'full'}},
             ensures=[('the-first-pattern-decides', 'result is env_matches("rxA")[0]')]),
    Contract('dp.basic_regex_match.later_pattern_when_the_first_does_not_match', BD + 'parse_basic_regex_match', ['C06'],
             modular=['id:dp.env.match_to_date.identity'],
             params=dict(self=_BRM_PARSER, source=Str(), reference=DateTime(1950, 2090)),
             requires=['source == source.strip()'],
             regex_env={'rxA': 'none', 'rxB': {'mode': 'full'}},
             ensures=[('the-second-pattern-decides', 'result is env_matches("rxB")[0]')]),
]

# ---- relative months: "from 4 to 22 next month", "the third of next month" wrap over the year boundary (C08)
_SH = lambda k: f'shift_month(reference.year, reference.month, swift)[{k}]'
_SCR_CFG = Config(tables=dict(month_of_year=Map('str', 'int', 1, 12), day_of_month=Map('str', 'int', 1, 31)),
                  funcs=dict(get_swift_day_or_month=Returns(Expr('swift')), is_future=Returns(Const(True))))
CONTRACTS += [
    Contract('dp.dateperiod.simple_case.relative_month', BDP + '_parse_simple_case', ['C08', 'C10'],
             params=dict(swift=Int(-1, 1), d0s=Str(), d1s=Str(),
                         self=Rec(DT + 'base_dateperiod.py::BaseDatePeriodParser', dict(config=_SCR_CFG, _inclusive_end_period=Const(False))),
                         source=Str(), reference=DateTime(1950, 2090)),
             requires=['d0s in self.config.day_of_month', 'd1s in self.config.day_of_month', f'{_SC_D0} <= {_SC_D1}', f'{_SC_D1} <= 28'],
             regex_env={'month_front_between_regex': {'mode': 'full', 'groups': {'year': 'None', 'month': 'None', 'relmonth': '"rel"'},
                                                      'captures': {'day': ['d0s', 'd1s']}}},
             ensures=[('the-two-days-of-the-month-swift-months-from-the-reference-month',
                       f'result.success and result.future_value[0] == date_with(ordinal({_SH(0)}, {_SH(1)}, {_SC_D0}), 0) and '
                       f'result.future_value[1] == date_with(ordinal({_SH(0)}, {_SH(1)}, {_SC_D1}), 0) and '
                       'result.past_value[0] == result.future_value[0] and result.past_value[1] == result.future_value[1]'),
                      ('timex-names-that-month',
                       f'result.timex == "(" + date_str({_SH(0)}, {_SH(1)}, {_SC_D0}) + "," + date_str({_SH(0)}, {_SH(1)}, {_SC_D1}) + '
                       f'",P" + str({_SC_D1} - {_SC_D0}) + "D)"')],
             note='a relative month word the culture classifies as future-anchored (is_future True: the year is then written out); '
                  'swift -1..1 as returned by the culture tables'),
    Contract('dp.number_with_month.relative_month', BD + 'parse_number_with_month', ['C08'],
             params=dict(N=Int(1, 28), swift=Int(-1, 1),
                         self=Rec(DT + 'base_date.py::BaseDateParser',
                                  dict(config=Config(values=dict(check_both_before_after=Const(False),
                                                                 ordinal_extractor=Config(funcs=dict(extract=Returns(ListOf(ER(), 1)))),
                                                                 integer_extractor=Config(funcs=dict(extract=Returns(ListOf(ER(), 1)))),
                                                                 number_parser=Config(funcs=dict(parse=Returns(_PARSE_NUM)))),
                                                     funcs=dict(get_swift_month=Returns(Expr('swift')))))),
                         source=Str(), reference=DateTime(1950, 2090)),
             requires=['reference.day <= 28'],
             regex_env={'month_regex': 'none', 'relative_month_regex': {'mode': 'match', 'groups': {'order': '"ord"'}}},
             ensures=[('day-N-of-the-month-swift-months-from-the-reference-month',
                       f'result.success and result.timex == date_str({_SH(0)}, {_SH(1)}, N) and '
                       f'result.future_value == date_with(ordinal({_SH(0)}, {_SH(1)}, N), 0) and result.past_value == result.future_value')],
             note='"the third of next month"; reference day <= 28 so that the month shift itself is defined for every implementation'),
]

# ---- "the month of 5 december 2018": the calendar month of a date, also for December (C11: start before end)
CONTRACTS += [
    Contract('dp.dateperiod.month_range_from_date', BDP + '__get_month_range_from_date', ['C11', 'C08'],
             params=dict(seed_date=DateTime(1950, 2090)),
             ensures=[('from-the-first-of-that-month-to-the-first-of-the-next',
                       'result[0] == date_with(ordinal(seed_date.year, seed_date.month, 1), 0) and '
                       'result[1] == date_with(ordinal(shift_month(seed_date.year, seed_date.month, 1)[0], '
                       'shift_month(seed_date.year, seed_date.month, 1)[1], 1), 0)'),
                      ('start-before-end', 'result[0] < result[1]')]),
]

# ---- "the 30th", "the 5th": a bare day number is the nearest such day on or after / before the reference, in the neighbouring
#      month when needed, also over the year boundary (C09); a day the neighbouring month does not have is reported as unresolved
_SN_CFG = Config(values=dict(ordinal_extractor=Config(funcs=dict(extract=Returns(ListOf(ER(text=Word(1, 6)), 1)))),
                             integer_extractor=Config(funcs=dict(extract=Returns(ListOf(ER(text=Word(1, 6)), 1)))),
                             number_parser=Config(funcs=dict(parse=Returns(_PARSE_NUM)))))
_NEXT = lambda k: f'shift_month(reference.year, reference.month, 1)[{k}]'
_PREV = lambda k: f'shift_month(reference.year, reference.month, -1)[{k}]'
CONTRACTS += [
    Contract('dp.single_number.day_of_the_nearest_month', BD + 'parse_single_number', ['C09'],
             params=dict(N=Int(1, 31), self=Rec(DT + 'base_date.py::BaseDateParser', dict(config=_SN_CFG)), source=Str(),
                         reference=DateTime(1950, 2090, midnight=True)),
             requires=['N <= days_in_month(reference.year, reference.month)'],
             ensures=[('timex-leaves-year-and-month-open', 'result.success and result.timex == "XXXX-XX-" + fmt(N, 2)'),
                      ('future-is-this-month-or-the-next',
                       f'result.future_value == (date_with(ordinal(reference.year, reference.month, N), 0) if N >= reference.day else '
                       f'(date_with(ordinal({_NEXT(0)}, {_NEXT(1)}, N), 0) if N <= days_in_month({_NEXT(0)}, {_NEXT(1)}) else date_with(1, 0)))'),
                      ('past-is-this-month-or-the-previous',
                       f'result.past_value == (date_with(ordinal(reference.year, reference.month, N), 0) if N < reference.day else '
                       f'(date_with(ordinal({_PREV(0)}, {_PREV(1)}, N), 0) if N <= days_in_month({_PREV(0)}, {_PREV(1)}) else date_with(1, 0)))')],
             note='midnight reference (the non-midnight comparison is the KF-C09-1 family); a day number the current month does not have '
                  'is outside this contract'),
]

# ---- "the last friday of may", "the first monday of next month": the N-th weekday of a month (C08)
_CD_WD = '(7 if weekday == 0 else weekday)'
_CD_FIRST = 'ordinal(year, month, 1)'
CONTRACTS += [
    Contract('dp.compute_date.nth_weekday', BD + '_compute_date', ['C08'], modular=['id:dt.this', 'id:dt.next'], returns=DateTime(1950, 2091),
             params=dict(self=Rec(DT + 'base_date.py::BaseDateParser', dict(config=Config())), cardinal=Int(1, 5), weekday=Int(0, 6), month=Int(1, 12), year=Int(1950, 2090)),
             ensures=[('the-first-such-weekday-of-the-month-plus-whole-weeks',
                       f'ordinal_of(result) == {_CD_FIRST} + ({_CD_WD} - 1 - weekday_of_ordinal({_CD_FIRST})) % 7 + 7 * (cardinal - 1) and '
                       'sec_of_day(result) == 0')],
             note='may run into the following month for a fifth weekday the month does not have (the caller steps back a week); must '
                  'not raise'),
]

CONTRACTS += [
    Contract('dp.env.compute_date', BD + '_compute_date', ['C08'], returns=DateTime(1950, 2091),
             params=dict(self=Opaque(), cardinal=Int(1, 5), weekday=Int(0, 6), month=Int(1, 12), year=Int(1950, 2090)),
             ensures=[('the-first-such-weekday-of-the-month-plus-whole-weeks',
                       f'ordinal_of(result) == {_CD_FIRST} + ({_CD_WD} - 1 - weekday_of_ordinal({_CD_FIRST})) % 7 + 7 * (cardinal - 1) and '
                       'sec_of_day(result) == 0')],
             assumed='the same clause is proved on the real function as dp.compute_date.nth_weekday (this copy only has an opaque self, '
                     'so that it can stand for the call inside parse_weekday_of_month)'),
]
_WOM_CFG = Config(tables=dict(cardinal_map=Map('str', 'int', 1, 5), day_of_week=Map('str', 'int', 0, 6, total=True),
                              month_of_year=Map('str', 'int', 1, 12)),
                  funcs=dict(is_cardinal_last=Returns(Expr('is_last')), get_swift_month=Returns(Expr('swift'))))
_WOM_WD = '(7 if self.config.day_of_week[wds] == 0 else self.config.day_of_week[wds])'
_WOM_C = '(5 if is_last else self.config.cardinal_map[cs])'
_WOM_FIRST = f'ordinal({_SH(0)}, {_SH(1)}, 1)'
CONTRACTS += [
    Contract('dp.weekday_of_month.relative_month', BD + 'parse_weekday_of_month', ['C08'], modular=['id:dp.env.compute_date'],
             params=dict(swift=Int(-1, 1), is_last=Bool(), cs=Str(), wds=Str(),
                         self=Rec(DT + 'base_date.py::BaseDateParser', dict(config=_WOM_CFG)), source=Str(), reference=DateTime(1951, 2089)),
             requires=['cs in self.config.cardinal_map'],
             regex_env={'week_day_of_month_regex': {'mode': 'match', 'groups': {'cardinal': 'cs', 'weekday': 'wds', 'month': '""'}}},
             ensures=[('resolved-without-raising-for-every-reference-day-and-month', 'result.success and result.past_value == result.future_value'),
                      ('steps-back-whole-weeks-only',
                       f'ordinal_of(result.future_value) == {_WOM_FIRST} + ({_WOM_WD} - 1 - weekday_of_ordinal({_WOM_FIRST})) % 7 + 7 * ({_WOM_C} - 1) or '
                       f'ordinal_of(result.future_value) == {_WOM_FIRST} + ({_WOM_WD} - 1 - weekday_of_ordinal({_WOM_FIRST})) % 7 + 7 * ({_WOM_C} - 2)')],
             note='a fifth weekday that the month does not have is read as the last one; every reference day incl. 29-31'),
]
CONTRACTS += [
    Contract('dp.weekday_of_month.named_month.bounded', BD + 'parse_weekday_of_month', ['C08'], modular=['id:dp.env.compute_date'],
             params=dict(is_last=Bool(), cs=Str(), wds=Str(), ms=Str(),
                         self=Rec(DT + 'base_date.py::BaseDateParser', dict(config=_WOM_CFG)), source=Str(), swift=Const(0),
                         reference=DateTime(2018, 2018)),
             requires=['cs in self.config.cardinal_map', 'ms != ""', 'ms in self.config.month_of_year'],
             regex_env={'week_day_of_month_regex': {'mode': 'match', 'groups': {'cardinal': 'cs', 'weekday': 'wds', 'month': 'ms'}}},
             ensures=[('resolved-without-raising', 'result.success')],
             bounded='reference dates of the year 2018 only (the unbounded contract leaves both solvers without an answer)',
             note='"the last friday of may": the year is open, both candidates are computed and stepped back a week when they leave the month'),
]
