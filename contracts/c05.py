"""C05 — units: table binding, unit-key assembly, compound currency arithmetic."""
from .common import *

UP = NWU + 'number_with_unit/parsers.py::'
UU = NWU + 'number_with_unit/utilities.py::DictionaryUtility.'
_ER = lambda **f: Rec(RT + 'extractor.py::ExtractResult', dict(dict(start=Int(0), length=Int(1), text=Str(), type=Str(),
                                                                   data=Const(None), meta_data=Const(None)), **f))

CONTRACTS = [
    Contract('c05.bind_dictionary', UU + 'bind_dictionary', ['C05'],
             params=dict(k1=Word(1, 8), k2=Word(1, 8), a=Word(1, 6), b=Word(1, 6), c=Word(1, 6),
                         dictionary=Expr('{k1: a + "|" + b, k2: c + "|" + a}'), source_dictionary=Expr('{}')),
             requires=['k1 != k2'],
             ensures=[('every-listed-spelling-maps-to-the-first-unit-that-lists-it',
                       'source_dictionary[a] == k1 and source_dictionary[b] == k1 and '
                       'source_dictionary[c] == (k1 if (c == a or c == b) else k2)'),
                      ('nothing-else-is-bound', 'len(source_dictionary) <= 3')],
             note='two units with two spellings each, spellings symbolic words (all equality patterns)'),
    Contract('c05.unit_parser.key_loop_safety', UP + 'NumberWithUnitParser.parse', ['C05'],
             params=dict(ns=Int(0), nl=Int(0),
                         self=Rec(UP + 'NumberWithUnitParser', dict(config=Config(values=dict(unit_map=Const({}), connector_token=Const(''))))),
                         source=_ER(text=Str(), data=_ER(start=Expr('ns'), length=Expr('nl')))),
             requires=['ns + nl <= len(source.text)'],
             loops={0: LoopSpec(invariant=['0 <= i and i <= len(key) + 1', 'key == old(source).text'],
                                decreases='len(key) + 1 - i')},
             raises={'IndexError': 'True'},
             ensures=[('span-kept', 'result.start == old(source).start and result.length == old(source).length')],
             note='safety and termination of the unit-key loop for every text and every relative number span inside it; '
                  'IndexError of unit_keys[-1] for a text that is only a number is permitted here (swallowed by the model)'),
]

_NUMPR = Rec(RT + 'parser.py::ParseResult', dict(start=Const(0), length=Const(2), text=Str(), type=Str(), data=Const(None),
                                                 meta_data=Const(None), value=Real(), resolution_str=Expr('num_res')))
CONTRACTS += [
    Contract('c05.unit_parser.suffix_unit', UP + 'NumberWithUnitParser.parse', ['C05'], unroll=12, loops={'__no_global__': True},
             params=dict(d0=Int(1, 9), d1=Int(0, 9), u0=Int(0, 25), u1=Int(0, 25), unit=Expr('letter_char(u0) + letter_char(u1)'),
                         canonical=Word(1, 10), num_res=Str(6),
                         self=Rec(UP + 'NumberWithUnitParser',
                                  dict(config=Config(values=dict(unit_map=Expr('{unit: canonical}'), connector_token=Const(''),
                                                                 internal_number_parser=Config(funcs=dict(parse=Returns(_NUMPR))))))),
                         source=_ER(start=Int(0), length=Int(4), type=Const('builtin.unit'),
                                    text=Expr('digit_char(d0) + digit_char(d1) + " " + unit'),
                                    data=_ER(start=Const(0), length=Const(2), text=Expr('digit_char(d0) + digit_char(d1)')))),
             ensures=[('unit-is-the-table-entry-of-the-spelling', 'result.value.unit == canonical'),
                      ('number-is-what-the-number-model-gives', 'result.value.number == num_res'),
                      ('span-kept', 'result.start == old(source).start and result.length == old(source).length')],
             note='layout "<2 digits> <2-letter unit>" (bounded shape; letters, digits and table entry symbolic)',
             bounded='one layout: two digits, a space, a two-letter unit spelling'),
]

_UV = lambda num, unit: Expr(f'make_unit_value({num}, {unit})')
_UPR = lambda num, unit, res, st, ln: Rec(RT + 'parser.py::ParseResult',
                                          dict(start=Expr(st), length=Expr(ln), text=Str(), type=Str(), data=Const(None), meta_data=Const(None),
                                               value=_UV(num, unit), resolution_str=Expr(res)))


def _compound_setup(I, loc):
    """number_with_unit_parser.parse is abstracted: the first call returns the main amount N in unit MAIN, the second the
    fraction amount M in unit FRAC (their own contract is the unit-parser contract above)."""
    from pyvc import envmodel as E, sorts
    calls = {'n': 0}
    r1 = _UPR('str(N)', '"Dollar"', '"N Dollar"', 'e0.start', 'e0.length')
    r2 = _UPR('str(M)', '"Cent"', '"M Cent"', 'e1.start', 'e1.length')

    def parse(I2, a, kw):
        calls['n'] += 1
        return sorts.build(I2, r1 if calls['n'] == 1 else r2, f'upr{calls["n"]}')
    loc['self'].fields['number_with_unit_parser'] = E.EnvConfig('nwu_parser', funcs={'parse': E.EnvFunc('parse', parse)})


CONTRACTS += [
    Contract('c05.currency.merge_compound_unit', UP + 'BaseCurrencyParser.__merge_compound_unit', ['C05'], setup=_compound_setup,
             unroll=6,
             params=dict(N=Int(0, 100000), M=Int(0, 100000), ratio=Int(1, 100000000),
                         e0=_ER(type=Const('builtin.unit.currency')), e1=_ER(type=Const('builtin.unit.currency')),
                         self=Rec(UP + 'BaseCurrencyParser',
                                  dict(config=Config(values=dict(
                                      currency_name_to_iso_code_map=Const({'Dollar': 'USD'}),
                                      currency_fraction_mapping=Const({'USD': 'CENT|DIME'}),
                                      currency_fraction_code_list=Const({'Cent': 'CENT'}),
                                      currency_fraction_num_map=Expr('{"Cent": ratio}'),
                                      culture_info=Config(funcs=dict(format=(['real'], 'str', None, None))))))),
                         compound_result=_ER(text=Str(), data=Expr('[e0, e1]'))),
             requires=['e0.start + e0.length <= e1.start', 'N + M >= 1'],
             ensures=[('one-entity-worth-N-plus-M-over-ratio-in-the-main-unit',
                       'len(result.value) == 1 and result.value[0].value.unit == "Dollar" and '
                       'result.value[0].value.iso_currency == "USD" and '
                       'result.value[0].value.number == self.config.culture_info.format(N + M / ratio)'),
                      ('span-from-the-main-amount-to-the-end-of-the-fraction',
                       'result.value[0].start == e0.start and result.value[0].length == e1.start + e1.length - e0.start')],
             note='main unit Dollar/USD with fraction unit Cent listed in its CurrencyFractionMapping entry; amounts and ratio symbolic'),
]


def _two_currencies_setup(I, loc):
    """as above, but the second component is an amount in an unrelated currency (Euro is no fraction unit of the Dollar)"""
    from pyvc import envmodel as E, sorts
    calls = {'n': 0}
    r1 = _UPR('str(N)', '"Dollar"', '"N Dollar"', 'e0.start', 'e0.length')
    r2 = _UPR('str(M)', '"Euro"', '"M Euro"', 'e1.start', 'e1.length')

    def parse(I2, a, kw):
        calls['n'] += 1
        return sorts.build(I2, r1 if calls['n'] == 1 else r2, f'upr{calls["n"]}')
    loc['self'].fields['number_with_unit_parser'] = E.EnvConfig('nwu_parser', funcs={'parse': E.EnvFunc('parse', parse)})


CONTRACTS += [
    Contract('c05.currency.merge_compound_unit.unrelated_currencies', UP + 'BaseCurrencyParser.__merge_compound_unit', ['C05', 'C12'],
             setup=_two_currencies_setup, unroll=8,
             params=dict(N=Int(1, 100000), M=Int(1, 100000),
                         e0=_ER(type=Const('builtin.unit.currency')), e1=_ER(type=Const('builtin.unit.currency')),
                         self=Rec(UP + 'BaseCurrencyParser',
                                  dict(config=Config(values=dict(
                                      currency_name_to_iso_code_map=Const({'Dollar': 'USD', 'Euro': 'EUR'}),
                                      currency_fraction_mapping=Const({'USD': 'CENT|DIME', 'EUR': 'CENT'}),
                                      currency_fraction_code_list=Const({'Cent': 'CENT'}),
                                      currency_fraction_num_map=Const({'Cent': 100}),
                                      culture_info=Config(funcs=dict(format=(['real'], 'str', None, None))))))),
                         compound_result=_ER(text=Str(), data=Expr('[e0, e1]'))),
             requires=['e0.start + e0.length <= e1.start'],
             ensures=[('two-entities-each-with-the-span-of-its-own-amount',
                       'len(result.value) == 2 and result.value[0].start == e0.start and result.value[0].length == e0.length and '
                       'result.value[1].start == e1.start and result.value[1].length == e1.length'),
                      ('each-in-its-own-currency',
                       'result.value[0].value.iso_currency == "USD" and result.value[1].value.iso_currency == "EUR" and '
                       'result.value[0].value.number == self.config.culture_info.format(N) and '
                       'result.value[1].value.number == self.config.culture_info.format(M)')],
             note='two amounts of unrelated currencies in one candidate group: they stay two entities that do not share a character'),
]


def unit_table_facts(tier, seed):
    """Closed, exhaustive: every spelling of every wired unit table resolves to its canonical unit (see closed/unit_tables.py).
    quick tier: the English tables; thorough tier: all eight cultures (about 11 500 entries)."""
    import json
    import os
    import subprocess
    import time
    from concurrent.futures import ThreadPoolExecutor
    VERIF = os.path.dirname(os.path.dirname(os.path.abspath(__file__)))
    known = json.load(open(os.path.join(VERIF, 'known_unit_tables.json')))['groups']
    cultures = ['english'] if tier != 'thorough' else ['english', 'spanish', 'french', 'portuguese', 'german', 'italian', 'dutch', 'chinese']

    def run(cul):
        t0 = time.time()
        p = subprocess.run(['/venv/bin/python', '-W', 'ignore', os.path.join(VERIF, 'closed', 'unit_tables.py'), cul],
                           capture_output=True, text=True, timeout=1500)
        try:
            return cul, json.loads(p.stdout), time.time() - t0
        except Exception:
            return cul, {'error': (p.stdout + p.stderr)[-500:]}, time.time() - t0
    out = []
    with ThreadPoolExecutor(max_workers=8) as ex:
        for cul, res, dt in ex.map(run, cultures):
            if 'error' in res:
                out.append(dict(name=f'tables/{cul}', kind='closed', verdict='unknown', detail=res['error']))
                continue
            by_model = {}
            for c, model, unit, sp, got in res['offenders']:
                by_model.setdefault(model, []).append([unit, sp, got])
            for model in ('Currency', 'Dimension', 'Temperature', 'Age'):
                offs = by_model.get(model, [])
                kn = {tuple(x) for x in known.get(f'{cul}/{model}', [])}
                new = [o for o in offs if (o[0], o[1]) not in kn]
                d = dict(name=f'tables/{cul}/{model}', kind='closed', backend='closed-eval', seconds=round(dt / 4, 1),
                         count=1, witness_key=f'{cul}/{model}',
                         assumptions=['unit table obligation evaluated exhaustively on the real package with the numeral 5'])
                if new:
                    d.update(verdict='sat', replayed=True, all_known=False,
                             detail=f'{len(new)} table entries do not resolve to their canonical unit and are not listed in '
                                    f'known_unit_tables.json, e.g. {new[:5]}', offenders=new[:50])
                elif offs:
                    d.update(verdict='sat', replayed=True, all_known=True,
                             detail=f'{len(offs)} listed offenders (of {res["entries"]} {cul} entries)')
                else:
                    d.update(verdict='unsat', detail=f'all {cul} {model} table entries resolve to their canonical unit')
                out.append(d)
    return out


unit_table_facts.props = ['C05']
CLOSED = [unit_table_facts]

# ---- C12: candidate selection of the unit extractor keeps the reported entities disjoint
UX = NWU + 'number_with_unit/extractors.py::NumberWithUnitExtractor.'


def _cands(n, with_number=False):
    params = {}
    for i in range(n):
        params[f's{i}'] = Int(0)
        params[f'l{i}'] = Int(1)
        params[f'p{i}'] = Bool()
        if with_number:
            params[f'n{i}'] = Int(0)
    data = (lambda i: _ER(start=Expr(f'n{i}'), length=Int(1))) if with_number else (lambda i: Const(None))
    for i in range(n):
        params[f'e{i}'] = _ER(start=Expr(f's{i}'), length=Expr(f'l{i}'), data=data(i))
    params['ers'] = Expr('[' + ', '.join(f'e{i}' for i in range(n)) + ']')
    params['unit_is_prefix'] = Expr('[' + ', '.join(f'p{i}' for i in range(n)) + ']')
    params['source'] = Str()
    params['self'] = Rec(NWU + 'number_with_unit/extractors.py::NumberWithUnitExtractor', {})
    req = [f's{i}' + f' + l{i} <= len(source)' for i in range(n)]
    req += [f's{i} <= s{i + 1} and s{i} + l{i} <= s{i + 1} + l{i + 1}' for i in range(n - 1)]
    if with_number:
        req += [f'n{i} <= l{i} and len(e{i}.text) == l{i}' for i in range(n)]
    return params, req


def _select(n, with_number=False):
    params, req = _cands(n, with_number)
    return Contract(f'c12.select_candidates.{n}' + ('.with_number_spans' if with_number else ''), UX + '_select_candidates', ['C12', 'C05'],
                    unroll=8, params=params, requires=req,
                    ensures=[('selected-entities-share-no-character',
                              'forall(lambda a, b: implies(a < b, result[a].start + result[a].length <= result[b].start), '
                              '0, len(result), 0, len(result))'),
                             ('selected-entities-are-candidates',
                              'forall(lambda a: exists(lambda j: result[a].start == ers[j].start and result[a].length == ers[j].length, 0, %d), '
                              '0, len(result))' % n)],
                    note=f'{n} candidates with arbitrary spans, ordered by start and by end (as the extractor builds them: one '
                         'candidate per number match, in order); prefix/suffix flags arbitrary')


CONTRACTS += [_select(2), _select(3), _select(2, True)]


def unit_config_wiring(tier, seed):
    """Closed (syntactic, exhaustive over the culture packages; closed/unit_config_wiring.py): every culture's unit parser
    configuration hands its own culture_info to the internal number parser configuration."""
    import json
    import os
    import subprocess
    VERIF = os.path.dirname(os.path.dirname(os.path.abspath(__file__)))
    p = subprocess.run(['/venv/bin/python', os.path.join(VERIF, 'closed', 'unit_config_wiring.py')], capture_output=True, text=True, timeout=300)
    try:
        r = json.loads(p.stdout)
    except Exception:
        return [dict(name='wiring/number-parser-gets-the-culture', kind='closed', verdict='unknown', detail=(p.stdout + p.stderr)[-500:])]
    if r['checked'] == 0:
        return [dict(name='wiring/number-parser-gets-the-culture', kind='closed', verdict='unknown', detail='no configuration class found')]
    if r['bad']:
        return [dict(name='wiring/number-parser-gets-the-culture', kind='closed', verdict='sat', backend='closed-eval', replayed=True,
                     witness=r['bad'][0], detail=f'{r["bad"][:4]}')]
    return [dict(name='wiring/number-parser-gets-the-culture', kind='closed', verdict='unsat', backend='closed-eval', count=r['checked'],
                 detail=f'{r["checked"]} culture packages: the internal number parser configuration is built with the culture_info of the '
                        'unit parser configuration (so the number inside a unit entity is formatted as that culture formats numbers)')]


unit_config_wiring.props = ['C05']
CLOSED.append(unit_config_wiring)

# ---- C01: the text of a merged currency entity is the slice of the compound text it spans, also at offset 0
CONTRACTS += [
    Contract('c01.currency.resolve_text', UP + 'BaseCurrencyParser.__resolve_text', ['C01', 'C05'], unroll=4,
             params=dict(bias=Int(0), source=Str(),
                         p0=Rec(RT + 'parser.py::ParseResult', dict(start=Int(0), length=Int(1), text=Str(), type=Str(), data=Const(None),
                                                                   meta_data=Const(None), value=Const(None), resolution_str=Const(None))),
                         self=Rec(UP + 'BaseCurrencyParser', {}), prs=Expr('[p0]')),
             requires=['bias <= p0.start', 'p0.start - bias + p0.length <= len(source)'],
             ensures=[('the-text-is-the-slice-it-spans',
                       'p0.text == source[p0.start - bias:p0.start - bias + p0.length]')],
             note='every start, 0 included (bias is the start of the compound candidate)'),
]

# ---- C12 at the model level: a model with two extractor/parser pairs (the Chinese / Japanese unit models chain their own pair
#      and the English one) never returns two entities whose ranges share a character
UM = NWU + 'number_with_unit/models.py::'
_UMPR = lambda k: Rec(RT + 'parser.py::ParseResult', dict(start=Expr(f'ps{k}'), length=Expr(f'pl{k}'), text=Str(), type=Str(), data=Const(None),
                                                         meta_data=Const(None), value=Str(), resolution_str=Str()))
_UMPAIR = lambda k: Rec(UM + 'ExtractorParserModel', dict(extractor=Config(funcs=dict(extract=Returns(ListOf(_ER(), 1)))),
                                                        parser=Config(funcs=dict(parse=Returns(_UMPR(k))))))
CONTRACTS += [
    Contract('c12.env.preprocess', RT + 'utilities.py::QueryProcessor.preprocess', ['C12'], returns=Str(),
             params=dict(source=Opaque(), case_sensitive=Opaque(), recode=Opaque()), ensures=[],
             assumed='normalisation of the query has its own contracts (c01.preprocess*); its result is only handed to the extractors here'),
    Contract('c12.unit_model.parse.two_pairs', UM + 'AbstractNumberWithUnitModel.parse', ['C12'], modular=['id:c12.env.preprocess'],
             params=dict(ps0=Int(0, 200), pl0=Int(1, 50), ps1=Int(0, 200), pl1=Int(1, 50),
                         self=Rec(UM + 'CurrencyModel', dict(extractor_parser=TupleOf(_UMPAIR(0), _UMPAIR(1)))), query=Str()),
             ensures=[('entities-of-one-call-never-share-a-character',
                       'forall(lambda i: forall(lambda j: result[i].end < result[j].start or result[j].end < result[i].start, i + 1, len(result)), '
                       '0, len(result))'),
                      ('the-first-pair-is-always-reported', 'len(result) >= 1 and result[0].start == ps0 and result[0].end == ps0 + pl0 - 1'),
                      ('a-disjoint-second-entity-is-kept',
                       'implies(ps1 + pl1 <= ps0 or ps0 + pl0 <= ps1, len(result) == 2 and result[1].start == ps1 and result[1].end == ps1 + pl1 - 1)')],
             note='one entity per pair, arbitrary spans; extractors and parsers abstracted by their contracts'),
]
