"""C17 — culture routing and the model cache."""
from .common import *

CU = RT + 'culture.py::Culture.'
MF = RT + 'model.py::ModelFactory.'

_MAP_POST = [
    ('supported-code-maps-to-itself', 'implies(culture_code.lower() in SUPPORTED, result == culture_code.lower())'),
    ('single-culture-language-maps-to-that-culture',
     'implies(culture_code.lower() not in SUPPORTED and len(same_language_cultures(culture_code.lower())) == 1, '
     'result == same_language_cultures(culture_code.lower())[0])'),
    ('any-other-code-resolves-to-no-registered-culture',
     'implies(culture_code.lower() not in SUPPORTED and len(same_language_cultures(culture_code.lower())) != 1, '
     'result not in REGISTERED)'),
]

CONTRACTS = [
    Contract('c17.map.empty', CU + 'map_to_nearest_language', ['C17'], params=dict(culture_code=Opt(Const(''))),
             ensures=[('none', 'result is None')]),
    Contract('c17.map.any_letter_case_of_supported_codes', CU + 'map_to_nearest_language', ['C17'], max_paths=500,
             params=dict(k=Int(0, 12), mask=Int(0, 15), culture_code=Expr('case_variant(SUPPORTED[k], mask)')),
             ensures=[('maps-to-the-lower-cased-code', 'result == SUPPORTED[k]')],
             note='closed: all 13 supported codes x all 16 upper/lower-case patterns of their letters, evaluated by the engine'),
    Contract('c17.map.listed_language_with_region', CU + 'map_to_nearest_language', ['C17'],
             params=dict(k=Int(0, 10), region=Word(0, 6), culture_code=Expr('LANGS[k] + "-" + region')), ensures=_MAP_POST),
    Contract('c17.map.listed_language_alone', CU + 'map_to_nearest_language', ['C17'],
             params=dict(k=Int(0, 10), culture_code=Expr('LANGS[k]')), ensures=_MAP_POST),
    Contract('c17.map.proper_prefix_of_a_language', CU + 'map_to_nearest_language', ['C17'],
             params=dict(k=Int(0, 10), with_region=Bool(), region=Word(0, 6),
                         culture_code=Expr('(PROPER_PREFIXES[k] + "-" + region) if with_region else PROPER_PREFIXES[k]')),
             requires=['culture_code != ""'], ensures=_MAP_POST),
    Contract('c17.map.other_language', CU + 'map_to_nearest_language', ['C17'],
             params=dict(lang=Word(1, 8), with_region=Bool(), region=Word(0, 6),
                         culture_code=Expr('(lang + "-" + region) if with_region else lang')),
             requires=['lang not in LANGS', 'lang not in PROPER_PREFIXES'], ensures=_MAP_POST),
]


def _factory_setup(I, loc):
    """Ghost state: the process-wide cache holds two arbitrary consistent entries; the factory knows two constructors.
    A constructor registered under (type, culture) builds a model whose origin is (type, culture, options)."""
    import z3
    from pyvc.values import Obj, Sym
    from pyvc.libb import NT
    from pyvc import envmodel as E

    def nt(name, fields, vals):
        t = NT(vals)
        t._fields, t._name = fields, name
        return t

    cls = I.repo.find(RT + 'model.py::ModelFactory')
    cache = {}
    entries0 = []
    for i in (1, 2):
        key = nt('CacheKey', ('model_type', 'culture', 'options'), [loc[f'ct{i}'], loc[f'cc{i}'], loc[f'co{i}']])
        m = Obj(None, {'origin': (loc[f'ct{i}'], loc[f'cc{i}'], loc[f'co{i}'])}, label=f'cached_model{i}')
        cache[key] = m
        entries0.append((key, m))
    I.p.assume(z3.Not(z3.And(I.term(loc['ct1']) == I.term(loc['ct2']), I.term(loc['cc1']) == I.term(loc['cc2']),
                             I.term(loc['co1']) == I.term(loc['co2']))))
    I.gcache[('cls', cls.module.dotted, 'ModelFactory', '__cache')] = cache
    loc['entries0'] = entries0
    facts = {}
    for i in (1, 2):
        ft, fc = loc[f'ft{i}'], loc[f'fc{i}']
        key = nt('ModelCtorKey', ('model_type', 'culture'), [ft, fc])

        def ctor(I2, a, kw, _ft=ft, _fc=fc, _i=i):
            return Obj(None, {'origin': (_ft, _fc, a[0])}, label=f'new_model{_i}@{I2.p.fresh_name("m")}')
        facts[key] = E.EnvFunc(f'ctor{i}', ctor)
    I.p.assume(z3.Not(z3.And(I.term(loc['ft1']) == I.term(loc['ft2']), I.term(loc['fc1']) == I.term(loc['fc2']))))
    loc['self'].fields['model_factories'] = facts


_FACTORY_PARAMS = dict(ct1=Str(6), cc1=Str(6), co1=Int(0, 7), ct2=Str(6), cc2=Str(6), co2=Int(0, 7),
                       ft1=Str(6), fc1=Str(6), ft2=Str(6), fc2=Str(6),
                       self=Rec(RT + 'model.py::ModelFactory', {}),
                       model_type_name=Str(6), culture=Str(6), options=Int(0, 7))

CONTRACTS += [
    Contract('c17.try_get_model', MF + 'try_get_model', ['C17', 'C02'], params=dict(_FACTORY_PARAMS), setup=_factory_setup,
             ensures=[('never-a-model-of-another-key', 'result is None or origin_is(result, model_type_name, culture, options)'),
                      ('none-only-if-no-constructor-and-not-cached',
                       'iff(result is None, cache_lookup(dict(entries0), model_type_name, culture, options) is None and '
                       'not has_factory(self.model_factories, model_type_name, culture))'),
                      ('cache-stays-consistent', 'cache_consistent(model_cache())'),
                      ('existing-entries-are-never-rebound', 'old_entries_kept(model_cache(), entries0)'),
                      ('cached-model-is-reused',
                       'implies(cache_lookup(dict(entries0), model_type_name, culture, options) is not None, '
                       'result is cache_lookup(dict(entries0), model_type_name, culture, options))')],
             note='the class-level cache is modelled with two arbitrary pre-existing entries and the factory with two constructors'),
    Contract('c17.get_model', MF + 'get_model', ['C17', 'C02'],
             params=dict(_FACTORY_PARAMS, fallback_to_default_culture=Bool()), setup=_factory_setup,
             raises={'ValueError': 'cache_lookup(dict(entries0), model_type_name, culture, options) is None and '
                                   'not has_factory(self.model_factories, model_type_name, culture) and '
                                   '(not fallback_to_default_culture or (cache_lookup(dict(entries0), model_type_name, "en-us", options) is None '
                                   'and not has_factory(self.model_factories, model_type_name, "en-us")))'},
             ensures=[('model-of-the-requested-key-or-english-fallback',
                       'origin_is(result, model_type_name, culture, options) or '
                       '(fallback_to_default_culture and origin_is(result, model_type_name, "en-us", options) and '
                       'cache_lookup(dict(entries0), model_type_name, culture, options) is None and '
                       'not has_factory(self.model_factories, model_type_name, culture))'),
                      ('cache-stays-consistent', 'cache_consistent(model_cache())'),
                      ('existing-entries-are-never-rebound', 'old_entries_kept(model_cache(), entries0)')]),
]


def registration_consistency(tier, seed):
    """Closed (syntactic, exhaustive over the registration code; closed/registrations.py): every register_model call of every
    recogniser builds the model of culture X from classes of language X, and no (type, culture) pair is registered twice."""
    import json
    import os
    import subprocess
    VERIF = os.path.dirname(os.path.dirname(os.path.abspath(__file__)))
    p = subprocess.run(['/venv/bin/python', os.path.join(VERIF, 'closed', 'registrations.py')], capture_output=True, text=True, timeout=300)
    try:
        r = json.loads(p.stdout)
    except Exception:
        return [dict(name='registrations/culture-consistency', kind='closed', verdict='unknown', detail=(p.stdout + p.stderr)[-500:])]
    if r['checked'] == 0:
        return [dict(name='registrations/culture-consistency', kind='closed', verdict='unknown', detail='no register_model call found')]
    if r['bad']:
        return [dict(name='registrations/culture-consistency', kind='closed', verdict='sat', backend='closed-eval', replayed=True,
                     witness=r['bad'][0], detail=f'{len(r["bad"])} inconsistent registrations: {r["bad"][:4]}')]
    return [dict(name='registrations/culture-consistency', kind='closed', verdict='unsat', backend='closed-eval', count=r['checked'],
                 detail=f'{r["checked"]} register_model calls: each model is built from classes of its own culture (an additional '
                        'English component is allowed next to them), no (type, culture) pair twice per recogniser')]


registration_consistency.props = ['C17']
try:
    CLOSED.append(registration_consistency)
except NameError:
    CLOSED = [registration_consistency]

# ---- the recogniser front door: the culture handed to the factory is the nearest supported culture of the REQUESTED culture,
#      or of the recogniser's own target culture when none is requested (any letter case of the supported codes)
_RECOG = lambda **f: Rec(RT + 'recognizer.py::Recognizer',
                         dict(dict(options=Int(0, 7), model_factory=Config(funcs=dict(get_model=(['str', 'str', 'bool', 'int'], 'int', None, None)))), **f))
CONTRACTS += [
    Contract('c17.recognizer.get_model.requested_culture', RT + 'recognizer.py::Recognizer.get_model', ['C17'], max_paths=500,
             params=dict(k=Int(0, 12), mask=Int(0, 15), culture=Expr('case_variant(SUPPORTED[k], mask)'),
                         self=_RECOG(target_culture=Str(6)), model_type_name=Str(6), fallback_to_default_culture=Bool()),
             ensures=[('factory-is-asked-for-the-lower-cased-requested-culture',
                       'result == self.model_factory.get_model(model_type_name, SUPPORTED[k], fallback_to_default_culture, self.options)')]),
    Contract('c17.recognizer.get_model.target_culture', RT + 'recognizer.py::Recognizer.get_model', ['C17'], max_paths=500,
             params=dict(k=Int(0, 12), mask=Int(0, 15), culture=Const(None),
                         self=_RECOG(target_culture=Expr('case_variant(SUPPORTED[k], mask)')), model_type_name=Str(6),
                         fallback_to_default_culture=Bool()),
             ensures=[('factory-is-asked-for-the-lower-cased-target-culture',
                       'result == self.model_factory.get_model(model_type_name, SUPPORTED[k], fallback_to_default_culture, self.options)')]),
]
