"""C14 — TIMEX parse / format round trip (datatypes-timex-expression)."""
from .common import *

TXC = TX + 'timex.py::Timex'


def canon(cid, expr, ghosts, fields, requires=()):
    """Contract: the canonical string `expr` parses to exactly `fields` and formats back to itself."""
    params = dict(ghosts)
    params['self'] = Rec(TXC, init=dict(timex=Expr(expr)))
    ens = [('canonical-string-comes-back-identical', f'result == {expr}')]
    for k, v in fields.items():
        ens.append((f'parses-to-{k}', f'self.{k} == {v}'))
    return Contract(cid, TX + 'timex.py::Timex.timex_value', ['C14'], params=params, requires=list(requires), ensures=ens)


Y, M, D = Int(1, 9999), Int(1, 12), Int(1, 31)
DATE = 'fmt(y, 4) + "-" + fmt(m, 2) + "-" + fmt(d, 2)'

CONTRACTS = [
    canon('c14.date', DATE, dict(y=Y, m=M, d=D), dict(year='y', month='m', day_of_month='d', hour='None', day_of_week='None')),
    canon('c14.open_year_date', '"XXXX-" + fmt(m, 2) + "-" + fmt(d, 2)', dict(m=M, d=D),
          dict(year='None', month='m', day_of_month='d')),
    canon('c14.weekday', '"XXXX-WXX-" + str(w)', dict(w=Int(1, 7)), dict(day_of_week='w', year='None', month='None')),
    canon('c14.year', 'fmt(y, 4)', dict(y=Y), dict(year='y', month='None')),
    canon('c14.year_month', 'fmt(y, 4) + "-" + fmt(m, 2)', dict(y=Y, m=M), dict(year='y', month='m', day_of_month='None')),
    canon('c14.open_year_month', '"XXXX-" + fmt(m, 2)', dict(m=M), dict(year='None', month='m', day_of_month='None')),
    canon('c14.iso_week', 'fmt(y, 4) + "-W" + fmt(w, 2)', dict(y=Y, w=Int(1, 53)), dict(year='y', week_of_year='w', weekend='False')),
    canon('c14.iso_weekend', 'fmt(y, 4) + "-W" + fmt(w, 2) + "-WE"', dict(y=Y, w=Int(1, 53)),
          dict(year='y', week_of_year='w', weekend='True')),
    canon('c14.time_h', '"T" + fmt(h, 2)', dict(h=Int(0, 23)), dict(hour='h', minute='0', second='0', year='None')),
    canon('c14.time_hm', '"T" + fmt(h, 2) + ":" + fmt(mi, 2)', dict(h=Int(0, 23), mi=Int(1, 59)),
          dict(hour='h', minute='mi', second='0')),
    canon('c14.time_hms', '"T" + fmt(h, 2) + ":" + fmt(mi, 2) + ":" + fmt(s, 2)', dict(h=Int(0, 23), mi=Int(0, 59), s=Int(1, 59)),
          dict(hour='h', minute='mi', second='s')),
    canon('c14.datetime', DATE + ' + "T" + fmt(h, 2) + ":" + fmt(mi, 2) + ":" + fmt(s, 2)',
          dict(y=Y, m=M, d=D, h=Int(0, 23), mi=Int(0, 59), s=Int(1, 59)),
          dict(year='y', month='m', day_of_month='d', hour='h', minute='mi', second='s')),
    canon('c14.datetime_h', DATE + ' + "T" + fmt(h, 2)', dict(y=Y, m=M, d=D, h=Int(0, 23)),
          dict(year='y', month='m', day_of_month='d', hour='h', minute='0', second='0')),
    canon('c14.weekday_time', '"XXXX-WXX-" + str(w) + "T" + fmt(h, 2)', dict(w=Int(1, 7), h=Int(0, 23)),
          dict(day_of_week='w', hour='h')),
]

TIME_REC = Rec(TX + 'time.py::Time', dict(hour=Int(0, 23), minute=Int(0, 59), second=Int(0, 59)))

CONTRACTS += [
    Contract('c14.from_date', TXC + '.from_date', ['C14'],
             params=dict(date=DateTime(1, 9999)),
             ensures=[('fields', 'result.year == date.year and result.month == date.month and result.day_of_month == date.day '
                                 'and result.hour is None'),
                      ('canonical-timex', 'result.timex_value() == date_str(date.year, date.month, date.day)')]),
    Contract('c14.from_date_time', TXC + '.from_date_time', ['C14'],
             params=dict(date=DateTime(1, 9999)),
             ensures=[('fields', 'result.year == date.year and result.month == date.month and result.day_of_month == date.day '
                                 'and result.hour == date.hour and result.minute == date.minute and result.second == date.second'),
                      ('canonical-timex', 'result.timex_value() == date_str(date.year, date.month, date.day) + '
                                          'timex_time_str(date.hour, date.minute, date.second)')]),
    Contract('c14.from_time', TXC + '.from_time', ['C14'],
             params=dict(time=TIME_REC),
             ensures=[('fields', 'result.hour == time.hour and result.minute == time.minute and result.second == time.second'),
                      ('canonical-timex', 'result.timex_value() == timex_time_str(time.hour, time.minute, time.second)')]),
    canon('c14.season', 'season', dict(k=Int(0, 3), season=Expr('"SP" if k == 0 else ("SU" if k == 1 else ("FA" if k == 2 else "WI"))')),
          dict(season='season', year='None')),
    canon('c14.year_season', 'fmt(y, 4) + "-" + season',
          dict(y=Y, k=Int(0, 3), season=Expr('"SP" if k == 0 else ("SU" if k == 1 else ("FA" if k == 2 else "WI"))')),
          dict(season='season', year='y')),
    canon('c14.part_of_day', '"T" + pod',
          dict(k=Int(0, 4), pod=Expr('"DT" if k == 0 else ("NI" if k == 1 else ("MO" if k == 2 else ("AF" if k == 3 else "EV")))')),
          dict(part_of_day='pod', hour='None')),
    canon('c14.present_ref', '"PRESENT_REF"', dict(), dict(now='True')),
]


def roundtrip(cid, expr, ghosts, requires=()):
    """Contract for a (possibly non-canonical) accepted spelling: parse -> format yields a string that parses to the
    same fields, and formatting that again changes nothing."""
    params = dict(ghosts)
    params['self'] = Rec(TXC, init=dict(timex=Expr(expr)))
    return Contract(cid, TX + 'timex.py::Timex.timex_value', ['C14'], params=params, requires=list(requires),
                    ensures=[('reparses-to-the-same-fields', 'same_timex_fields(reparse_timex(result), self)'),
                             ('formatting-is-idempotent', 'reparse_timex(result).timex_value() == result')])


def _dur(cid, prefix, unit_expr, field):
    return Contract(cid, TX + 'timex.py::Timex.timex_value', ['C14'],
                    params=dict(x=Real(0), amt=Expr('str(x)'), k=Int(0, 3), unit=Expr(unit_expr),
                                self=Rec(TXC, init=dict(timex=Expr(f'"{prefix}" + amt + unit')))),
                    requires=['x > 0', 'amount_shaped(amt)'],
                    ensures=[('canonical-string-comes-back-identical', f'result == "{prefix}" + amt + unit'),
                             ('amount-parsed', f'duration_amount(self, unit, "{prefix}") == x')],
                    note='str(Decimal) is modelled as an uninterpreted injective function whose results are assumed to have the '
                         'amount shape \\d*\\.?\\d+ (not true for exponent notation such as 1E-8: recorded as an assumption)')


CONTRACTS += [
    roundtrip('c14.rt.time_hm0', '"T" + fmt(h, 2) + ":" + fmt(mi, 2)', dict(h=Int(0, 23), mi=Int(0, 59))),
    roundtrip('c14.rt.time_hms0', '"T" + fmt(h, 2) + ":" + fmt(mi, 2) + ":" + fmt(s, 2)', dict(h=Int(0, 23), mi=Int(0, 59), s=Int(0, 59))),
    roundtrip('c14.rt.datetime', DATE + ' + "T" + fmt(h, 2) + ":" + fmt(mi, 2) + ":" + fmt(s, 2)',
              dict(y=Y, m=M, d=D, h=Int(0, 23), mi=Int(0, 59), s=Int(0, 59))),
    roundtrip('c14.rt.date', DATE, dict(y=Y, m=M, d=D)),
    roundtrip('c14.rt.week_of_month_weekday', '"XXXX-" + fmt(m, 2) + "-WXX-" + str(w) + "-" + str(dw)', dict(m=M, w=Int(1, 5), dw=Int(1, 7))),
    _dur('c14.duration_date', 'P', '"Y" if k == 0 else ("M" if k == 1 else ("W" if k == 2 else "D"))', 'date'),
    _dur('c14.duration_time', 'PT', '"H" if k == 0 else ("M" if k == 1 else "S")', 'time'),
]

CONTRACTS += [
    roundtrip('c14.week_of_month', '"XXXX-" + fmt(m, 2) + "-W" + fmt(w, 2)', dict(m=M, w=Int(1, 5))),
    Contract('c14.duration_zero', TX + 'timex.py::Timex.timex_value', ['C14'],
             params=dict(self=Rec(TXC, init=dict(timex=Const('P0D')))),
             ensures=[('canonical-string-comes-back-identical', 'result == "P0D"')]),
]
