"""C01 / C12 — span glue: the matched[] sweeps, token merging, query normalisation."""
from .common import *

NEX = NUM + 'number/extractors.py::BaseNumberExtractor.'
ERLIST = RecList({'start': 'int', 'length': 'int', 'text': 'str', 'type': 'any', 'data': 'any', 'meta_data': 'any'},
                 cls=RT + 'extractor.py::ExtractResult')


def _number_extractor_setup(I, loc):
    """An English number extractor with one configured regex (its matches are environment values), the negative-term
    regex (R2: end-anchored, checked as a syntactic obligation on every culture's extractor) and no ambiguity filter."""
    from pyvc import envmodel as E
    from pyvc.libb import NT
    rv = NT([E.CompiledPattern('rx0', 'rx0'), 'Num'])
    rv._fields, rv._name = ('re', 'val'), 'ReVal'
    o = loc['self']
    o.fields['__regexes'] = [rv]
    o.fields['__negative_number_terms'] = E.CompiledPattern('neg', 'neg')
    o.fields['__ambiguity_filters_dict'] = []


SWEEP_INV = [
    '0 <= i and i <= len(source) and -1 <= last and last < i and len(matched) == len(source)',
    'forall(lambda k: implies(last < k and k < i, matched[k]), 0, len(source))',
    'last == -1 or not matched[last]',
    'forall(lambda a: result[a].start >= 0 and result[a].length >= 1 and result[a].start + result[a].length <= i and '
    'result[a].text == source[result[a].start:result[a].start + result[a].length].strip() and '
    'matched[result[a].start + result[a].length - 1], 0, len(result))',
    'forall(lambda a, b: implies(a < b, result[a].start + result[a].length <= result[b].start), 0, len(result), 0, len(result))',
    'forall(lambda a: result[a].start + result[a].length <= last or (result[a].start + result[a].length == i and '
    '(i == len(source) or not matched[i])), 0, len(result))',
]

CONTRACTS = [
    Contract('c01.number_extractor.extract', NEX + 'extract', ['C01', 'C12', 'C03'], setup=_number_extractor_setup,
             params=dict(self=Rec(NUM + 'number/english/extractors.py::EnglishNumberExtractor', {}), source=Str()),
             regex_env={'rx0': {'count': 2},
                        'neg': {'end_anchored': True,
                                'assume': 'forall(lambda k: not matched[k], M.start(), M.end())'}},
             loops={2: LoopSpec(invariant=['len(matched) == len(source)']),
                    3: LoopSpec(invariant=SWEEP_INV, types={'result': ERLIST})},
             ensures=[('spans-inside-the-query-with-their-text',
                       'forall(lambda a: result[a].start >= 0 and result[a].length >= 1 and '
                       'result[a].start + result[a].length <= len(source) and '
                       'result[a].text == source[result[a].start:result[a].start + result[a].length].strip(), 0, len(result))'),
                      ('entities-do-not-overlap',
                       'forall(lambda a, b: implies(a < b, result[a].start + result[a].length <= result[b].start), '
                       '0, len(result), 0, len(result))')],
             note='regex matches are environment values (R1); the sign term regex is end-anchored (R2) and is assumed not to '
                  'overlap positions matched by the number regexes (H_sign)'),
]


def negative_terms_end_anchored(tier, seed):
    """R2 as a syntactic obligation: in every culture's number extractor the pattern handed to get_safe_reg_exp for
    the negative-term regex ends in an unescaped '$' (evaluated from the real source and resource modules)."""
    import ast
    import glob
    import os
    from pyvc.source import Repo, LIBS
    from pyvc.path import Path
    from pyvc.symex import Interp, Frame
    from pyvc.contract import VerifEnv
    env = VerifEnv([])
    out = []
    base = os.path.join(LIBS, 'recognizers-number', 'recognizers_number', 'number')
    for f in sorted(glob.glob(os.path.join(base, '*', 'extractors.py'))):
        rel = os.path.relpath(f, os.path.dirname(os.path.dirname(os.path.dirname(LIBS))))
        mod = env.repo.module_by_relpath(os.path.relpath(f, '/repo') if f.startswith('/repo') else rel)
        for n in ast.walk(mod.tree):
            if isinstance(n, ast.Assign) and any(isinstance(t, ast.Attribute) and t.attr == '__negative_number_terms' for t in n.targets) \
                    and isinstance(n.value, ast.Call) and n.value.args:
                I = Interp(env.repo, Path([], 0), env)
                try:
                    src = I.eval(n.value.args[0], Frame(None, mod))
                except Exception as e:
                    out.append(dict(name=f'C01/R2/negative-terms-end-anchored:{mod.relpath}', kind='closed', verdict='unknown',
                                    detail=f'cannot evaluate pattern: {e}'))
                    continue
                ok = isinstance(src, str) and src.endswith('$') and not src.endswith('\\$')
                out.append(dict(name=f'R2/negative-terms-end-anchored:{os.path.basename(os.path.dirname(f))}', kind='closed',
                                verdict='unsat' if ok else 'sat',
                                detail=f'{mod.relpath}:{n.lineno} pattern {src!r}' + ('' if ok else ' does not end in an unescaped $'),
                                backend='closed-eval', replayed=False, witness_key=os.path.basename(os.path.dirname(f))))
    if not out:
        out.append(dict(name='R2/negative-terms-end-anchored', kind='closed', verdict='unknown', detail='no extractor assigns the negative-term regex'))
    return out


negative_terms_end_anchored.props = ['C01', 'C12', 'C03']
CLOSED = [negative_terms_end_anchored]

TOKS = RecList({'_start': 'int', '_end': 'int', '_metadata': 'any'}, cls=DT + 'utilities.py::Token')
_J = [   # merged tokens: inside the text, non-empty, starts strictly increasing, pairwise disjoint
    'forall(lambda a: 0 <= merged_tokens[a].start and merged_tokens[a].start < merged_tokens[a].end and '
    'merged_tokens[a].end <= len(source), 0, len(merged_tokens))',
    'forall(lambda a, b: implies(a < b, merged_tokens[a].start < merged_tokens[b].start and '
    'merged_tokens[a].end <= merged_tokens[b].start), 0, len(merged_tokens), 0, len(merged_tokens))',
]

CONTRACTS += [
    Contract('c01.merge_all_tokens', DT + 'utilities.py::merge_all_tokens', ['C01', 'C12'],
             params=dict(tokens=TOKS, source=Str(), extractor_name=Str()),
             requires=['forall(lambda a: 0 <= tokens[a].start and tokens[a].start < tokens[a].end and '
                       'tokens[a].end <= len(source), 0, len(tokens))'],
             loops={0: LoopSpec(index='k', types={'merged_tokens': TOKS},
                                invariant=['0 <= k and k <= len(tokens_)'] + _J + [
                                    'forall(lambda a, j: implies(k <= j, merged_tokens[a].start <= tokens_[j].start), '
                                    '0, len(merged_tokens), 0, len(tokens_))']),
                    1: LoopSpec(index='index',
                                invariant=['0 <= index and index <= len(merged_tokens) and 0 <= k and k < len(tokens_)'] + _J + [
                                    'forall(lambda a: merged_tokens[a].start <= tokens_[k].start, 0, len(merged_tokens))',
                                    'forall(lambda a, j: implies(k < j, merged_tokens[a].start <= tokens_[j].start), '
                                    '0, len(merged_tokens), 0, len(tokens_))',
                                    'implies(add, forall(lambda a: merged_tokens[a].end <= tokens_[k].start, 0, index))']),
                    2: LoopSpec(index='k2', types={'result': ERLIST},
                                invariant=['0 <= k2 and k2 <= len(merged_tokens) and len(result) == k2',
                                           'forall(lambda a: result[a].start == merged_tokens[a].start and '
                                           'result[a].length == merged_tokens[a].end - merged_tokens[a].start and '
                                           'result[a].text == source[result[a].start:result[a].start + result[a].length], '
                                           '0, len(result))'])},
             ensures=[('spans-inside-the-text-with-their-text',
                       'forall(lambda a: result[a].start >= 0 and result[a].length >= 1 and '
                       'result[a].start + result[a].length <= len(source) and '
                       'result[a].text == source[result[a].start:result[a].start + result[a].length], 0, len(result))'),
                      ('entities-do-not-overlap-and-are-sorted',
                       'forall(lambda a, b: implies(a < b, result[a].start + result[a].length <= result[b].start), '
                       '0, len(result), 0, len(result))')],
             note='tokens handed in by the sub-extractors are assumed non-empty and inside the text (R1 at their ~60 call sites)'),
]

QP = RT + 'utilities.py::QueryProcessor.'
CONTRACTS += [
    Contract('c01.preprocess', QP + 'preprocess', ['C01'],
             params=dict(source=Str(), case_sensitive=Const(False), recode=Bool()),
             ensures=[('normalisation-preserves-the-length-so-offsets-stay-valid', 'len(result) == len(source)')],
             note='str.replace of one character by one character and str.lower are library models (DESIGN 4.4): the set of code '
                  'points whose lower() is longer than one character is computed from the running CPython'),
]

CONTRACTS += [
    Contract('c01.lower_keep_length', QP + 'lower_keep_length', ['C01'], returns=Str(),
             params=dict(source=Str()),
             loops={0: LoopSpec(invariant=['len(chars) == len(source)',
                                           'forall(lambda k: len(chars[k]) == 1, 0, len(chars))'])},
             ensures=[('length-preserved', 'len(result) == len(source)')]),
    Contract('c01.preprocess.case_sensitive', QP + 'preprocess', ['C01'], modular=[QP + 'to_lower_term_sensitive'],
             params=dict(source=Str(), case_sensitive=Const(True), recode=Bool()),
             ensures=[('normalisation-preserves-the-length-so-offsets-stay-valid', 'len(result) == len(source)')]),
    Contract('c01.to_lower_term_sensitive', QP + 'to_lower_term_sensitive', ['C01'], returns=Str(),
             modular=[QP + 'lower_keep_length', QP + 'apply_reverse'],
             params=dict(input_str=Str()),
             regex_env={'*': {'count': 2}},
             ensures=[('length-preserved', 'len(result) == len(input_str)')]),
    Contract('c01.apply_reverse', QP + 'apply_reverse', ['C01'], modifies=['string_chars'],
             params=dict(idx=Int(0), string_chars=Arr('str'), value=Str()),
             requires=['idx + len(value) <= len(string_chars)', 'forall(lambda k: len(string_chars[k]) == 1, 0, len(string_chars))'],
             loops={0: LoopSpec(invariant=['len(string_chars) == len(old(string_chars))',
                                           'forall(lambda k: len(string_chars[k]) == 1, 0, len(string_chars))'])},
             ensures=[('same-number-of-single-characters',
                       'len(string_chars) == len(old(string_chars)) and forall(lambda k: len(string_chars[k]) == 1, 0, len(string_chars))')]),
]

BMEX = DT + 'base_merged.py::BaseMergedExtractor.'
CONTRACTS += [
    Contract('c01.try_merge_modifier_token', BMEX + 'try_merge_modifier_token', ['C01'],
             params=dict(self=Rec(DT + 'base_merged.py::BaseMergedExtractor',
                                  dict(config=Config(values=dict(check_both_before_after=Const(False))), options=Const(0))),
                         source=Str(),
                         extract_result=Rec(RT + 'extractor.py::ExtractResult',
                                            dict(start=Int(0), length=Int(1), text=Str(), type=Str(), data=Const(None), meta_data=Const(None))),
                         pattern=Const('modifier_regex'), potential_ambiguity=Const(False)),
             requires=['extract_result.start + extract_result.length <= len(source)',
                       'extract_result.text == source[extract_result.start:extract_result.start + extract_result.length]'],
             regex_env={'modifier_regex': {'count': 2}},
             ensures=[('widened-span-stays-inside-the-query-and-keeps-its-end',
                       '0 <= extract_result.start and extract_result.start <= old(extract_result).start and '
                       'extract_result.start + extract_result.length == old(extract_result).start + old(extract_result).length'),
                      ('text-is-the-slice-of-the-query',
                       'extract_result.text == source[extract_result.start:extract_result.start + extract_result.length]'),
                      ('unchanged-when-no-modifier', 'implies(not result, extract_result.start == old(extract_result).start and '
                                                     'extract_result.length == old(extract_result).length)')],
             note='prefix modifiers only (check_both_before_after False, as in every culture but those that set it)'),
]

_PR = Rec(RT + 'parser.py::ParseResult', dict(start=Expr('ps'), length=Expr('pl'), text=Expr('ptext'), type=Str(), data=Const(None),
                                              meta_data=Const(None), value=Str(), resolution_str=Expr('pres')))
CONTRACTS += [
    Contract('c01.number_model.single_parse', NUM + 'number/models.py::AbstractNumberModel.__single_parse', ['C01', 'C03'],
             params=dict(ps=Int(0), pl=Int(1), ptext=Str(), pres=Str(),
                         self=Rec(NUM + 'number/models.py::NumberModel',
                                  dict(parser=Config(funcs=dict(parse=Returns(_PR))), extractor=Opaque())),
                         source=Rec(RT + 'extractor.py::ExtractResult', dict(start=Int(0), length=Int(1), text=Str(), type=Str(),
                                                                             data=Const(None), meta_data=Const(None)))),
             ensures=[('span-is-the-parse-result-span-with-inclusive-end',
                       'result.start == ps and result.end == ps + pl - 1 and result.text == ptext and result.type_name == "number"'),
                      ('resolution-is-the-parsed-value', 'result.resolution["value"] == pres')]),
    Contract('c01.datetime_model.to_model_result', DT + 'models.py::DateTimeModel.__to_model_result', ['C01', 'C11'],
             params=dict(parse_result_value=Rec(DT + 'parsers.py::DateTimeParseResult',
                                                dict(start=Int(0), length=Int(1), text=Str(), type=Str(), data=Const(None), meta_data=Const(None),
                                                     value=Opaque(), resolution_str=Const(''), timex_str=Str()))),
             ensures=[('end-is-the-last-character-of-the-span',
                       'result.start == parse_result_value.start and result.end == parse_result_value.start + parse_result_value.length - 1'),
                      ('text-and-type-copied', 'result.text == parse_result_value.text and result.type_name == parse_result_value.type')]),
    Contract('c01.extract_result.end', RT + 'extractor.py::ExtractResult.end', ['C01', 'C12'],
             params=dict(self=Rec(RT + 'extractor.py::ExtractResult', dict(start=Int(0), length=Int(0), text=Str(), type=Str(),
                                                                           data=Const(None), meta_data=Const(None)))),
             ensures=[('inclusive-end', 'result == self.start + self.length - 1')]),
    Contract('c01.extract_result.overlap', RT + 'extractor.py::ExtractResult.overlap', ['C12'],
             params=dict(self=Rec(RT + 'extractor.py::ExtractResult', dict(start=Int(0), length=Int(1), text=Str(), type=Str(),
                                                                           data=Const(None), meta_data=Const(None))),
                         other=Rec(RT + 'extractor.py::ExtractResult', dict(start=Int(0), length=Int(1), text=Str(), type=Str(),
                                                                            data=Const(None), meta_data=Const(None)))),
             ensures=[('share-a-character',
                       'result == (max(self.start, other.start) <= min(self.start + self.length - 1, other.start + other.length - 1))')]),
]

BMP = DT + 'base_merged.py::BaseMergedParser.'
_VAL = Rec(DT + 'utilities.py::DateTimeResolutionResult', dict(mod=Str(), sub_date_time_entities=Const([])))
_DTPR = Rec(DT + 'parsers.py::DateTimeParseResult', dict(start=Int(), length=Int(), text=Str(), type=Str(), data=Const(None), meta_data=Const(None),
                                                         value=_VAL, resolution_str=Const(None), timex_str=Str()))
_MD = Rec(RT + 'meta_data.py::MetaData', dict(has_mod=Const(True)))
_MOD_POST = [('span-of-the-entity-is-restored', 'result.start == old(source).start and result.length == old(source).length'),
             ('text-of-the-entity-is-restored', 'result.text == old(source).text')]


# a modifier found by match_begin at the very start of the text / after white space only (prefix modifiers: no culture of this
# port sets check_both_before_after, so the entity text never carries a suffix modifier); the matched text does not occur earlier
_LEAD = {'mode': 'match', 'assume': 'M.start() == 0'}
_BLANK_BEFORE = {'mode': 'match', 'assume': 'text.index(M.group()) == M.start() and text[0:M.start()].strip() == ""'}


def _merged_parser(cid, env, note, post=None):
    base = {'before_regex': 'none', 'after_regex': 'none', 'since_regex': 'none', 'around_regex': 'none', 'equal_regex': 'none',
            'suffix_after': 'none', 'year_regex': 'none'}
    base.update(env)
    return Contract(cid, BMP + 'parse', ['C01'], modular=['id:c01.env.parse_result', 'id:c01.env.set_parse_result'],
                    params=dict(self=Rec(DT + 'base_merged.py::BaseMergedParser', dict(config=Config(), options=Const(0))),
                                source=Rec(RT + 'extractor.py::ExtractResult',
                                           dict(start=Int(0), length=Int(1), text=Str(), type=Const('datetimeV2.duration'), data=Const(None),
                                                meta_data=_MD)),
                                reference=DateTime()),
                    requires=['source.length == len(source.text)'],
                    regex_env=base, ensures=post or _MOD_POST, note=note)


CONTRACTS += [
    Contract('c01.env.parse_result', BMP + 'parse_result', ['C01'], returns=_DTPR,
             params=dict(self=Opaque(), source=Opaque(), reference=Opaque()),
             ensures=[('sub-parser-keeps-the-span-it-was-given',
                       'result.start == source.start and result.length == source.length and result.text == source.text')],
             assumed='the sub-parsers copy the span of the extract result they are given (their own contracts: ParseResult(source))'),
    Contract('c01.env.set_parse_result', BMP + 'set_parse_result', ['C01'], returns=Expr('slot'),
             params=dict(self=Opaque(), slot=Opaque(), has_before=Opaque(), has_after=Opaque(), has_since=Opaque()), ensures=[],
             assumed='resolution assembly does not touch start / length / text of the slot (it assigns value and type only)'),
    _merged_parser('c01.merged_parser.mod.before', {'before_regex': [_LEAD, 'none']},
                   'a leading before-modifier (match at offset 0 of the entity text) is cut off for the sub-parser and put back'),
    _merged_parser('c01.merged_parser.mod.after', {'after_regex': [_LEAD, 'none']}, 'a leading after-modifier'),
    _merged_parser('c01.merged_parser.mod.since', {'since_regex': [_LEAD, 'none']}, 'a leading since-modifier'),
    _merged_parser('c01.merged_parser.mod.before_around', {'before_regex': [_LEAD, 'none'], 'around_regex': [_BLANK_BEFORE, 'none']},
                   'a leading before-modifier followed by an approximation word ("before about ..."), any white space between them; '
                   'the text clause (a three-part concatenation of slices) is left out: both solvers time out on it', post=_MOD_POST[:1]),
    _merged_parser('c01.merged_parser.mod.around', {'around_regex': [_LEAD, 'none']}, 'a leading approximation word'),
]

# ---- C12: the suffix modifier ("3 pm or later on monday") is not absorbed when another entity follows it
_AFTER = 'source[old(e0).start + old(e0).length:].strip()'
_MLEN = '(env_matches("suffix_after_regex")[0].end() - env_matches("suffix_after_regex")[0].start())'
CONTRACTS += [
    Contract('c12.env.try_merge_modifier_token', BMEX + 'try_merge_modifier_token', ['C12'], returns=Bool(),
             params=dict(self=Opaque(), extract_result=Opaque(), pattern=Opaque(), source=Opaque(), potential_ambiguity=Opaque()),
             ensures=[('nothing-merged', 'result == False')],
             assumed='no prefix modifier stands in front of the two entities of the add_mod contract (prefix merging has its own '
                     'contract c01.try_merge_modifier_token)'),
    Contract('c12.add_mod.suffix_followed_by_entity', BMEX + 'add_mod', ['C12'], modular=['id:c12.env.try_merge_modifier_token'],
             params=dict(self=Rec(DT + 'base_merged.py::BaseMergedExtractor', dict(config=Config(), options=Const(0))),
                         source=Str(),
                         e0=Rec(RT + 'extractor.py::ExtractResult', dict(start=Int(0), length=Int(1), text=Str(), type=Const('time'),
                                                                        data=Const(None), meta_data=Const(None))),
                         e1=Rec(RT + 'extractor.py::ExtractResult', dict(start=Int(0), length=Int(1), text=Str(), type=Const('duration'),
                                                                        data=Const(None), meta_data=Const(None))),
                         extract_results=Expr('[e0, e1]')),
             requires=['e0.start + e0.length <= e1.start', 'e1.start + e1.length <= len(source)', 'len(e1.text) >= 1'],
             regex_env={'suffix_after_regex': {'mode': 'match', 'assume': 'M.start() == 0'}},
             ensures=[('a-suffix-modifier-followed-by-the-next-entity-is-not-absorbed',
                       f'implies(len(env_matches("suffix_after_regex")) == 1 and {_MLEN} != len({_AFTER}.strip()) and {_AFTER}.strip()[{_MLEN}:].strip().startswith(e1.text), '
                       'e0.length == old(e0).length and e0.start == old(e0).start)'),
                      ('the-other-entity-is-untouched', 'e1.start == old(e1).start and e1.length == old(e1).length')],
             note='two entities in order; the suffix-after pattern matches at the start of the text after the first one'),
]

# ---- C12: add_to merges one candidate into the entities found so far (no ordering of the list is assumed)
_E = lambda i: Rec(RT + 'extractor.py::ExtractResult', dict(start=Int(0), length=Int(1), text=Str(), type=Str(), data=Const(None), meta_data=Const(None)))
_OV = lambda i: f'(not (d{i}.start > v.start + v.length - 1) and not (v.start > d{i}.start + d{i}.length - 1))'
_CV = lambda i: (f'((v.start < d{i}.start and v.start + v.length >= d{i}.start + d{i}.length) or '
                 f'(v.start <= d{i}.start and v.start + v.length > d{i}.start + d{i}.length))')
_ANY_OV = ' or '.join(_OV(i) for i in range(3))
_ANY_CV = ' or '.join(_CV(i) for i in range(3))
CONTRACTS += [
    Contract('c12.add_to.three_destinations', BMEX + 'add_to', ['C12'], unroll=8,
             params=dict(self=Rec(DT + 'base_merged.py::BaseMergedExtractor', dict(config=Config(), options=Const(0))),
                         d0=_E(0), d1=_E(1), d2=_E(2), v=_E(3), destinations=Expr('[d0, d1, d2]'), source=Expr('[v]'), text=Str()),
             ensures=[('a-candidate-that-touches-nothing-is-appended',
                       f'implies(not ({_ANY_OV}), len(result) == 4 and result[0] is d0 and result[1] is d1 and result[2] is d2 and result[3] is v)'),
                      ('a-candidate-that-overlaps-an-entity-without-covering-any-is-dropped',
                       f'implies(({_ANY_OV}) and not ({_ANY_CV}), len(result) == 3 and result[0] is d0 and result[1] is d1 and result[2] is d2)'),
                      ('every-entity-the-candidate-covers-is-replaced-by-it',
                       f'implies({_ANY_CV}, len([r for r in result if r is v]) == 1 and '
                       + ' and '.join(f'(len([r for r in result if r is d{i}]) == (0 if {_CV(i)} else 1))' for i in range(3)) + ')')],
             note='three existing entities in ANY order (the list is in arrival order, not text order) and one candidate, spans arbitrary'),
]

# a prefix modifier after leading white space: the widened entity starts AT the modifier ("  before 3pm" -> "before 3pm")
CONTRACTS += [
    Contract('c01.try_merge_modifier_token.leading_space', BMEX + 'try_merge_modifier_token', ['C01'],
             params=dict(self=Rec(DT + 'base_merged.py::BaseMergedExtractor',
                                  dict(config=Config(values=dict(check_both_before_after=Const(False))), options=Const(0))),
                         a0=Int(0, 25), a1=Int(0, 25), a2=Int(0, 25), mod=Expr('letter_char(a0) + letter_char(a1) + letter_char(a2)'),
                         ent=Word(1, 8), source=Expr('"  " + mod + " " + ent'),
                         extract_result=Rec(RT + 'extractor.py::ExtractResult',
                                            dict(start=Const(6), length=Expr('len(ent)'), text=Expr('ent'), type=Str(),
                                                 data=Const(None), meta_data=Const(None))),
                         pattern=Const('modifier_regex'), potential_ambiguity=Const(False)),
             regex_env={'modifier_regex': {'count': 1, 'exact': True, 'assume': 'M.group() == mod'}},
             ensures=[('the-modifier-is-merged', 'result'),
                      ('the-widened-entity-starts-at-the-modifier-not-at-the-white-space-before-it',
                       'extract_result.start == 2 and extract_result.length == 4 + len(ent)'),
                      ('its-text-is-the-modifier-and-the-entity', 'extract_result.text == mod + " " + ent')],
             note='layout: two blanks, a three-letter modifier word (letters symbolic), a blank, the entity; the modifier pattern matches exactly the modifier word'),
]

# a suffix modifier ("3 pm or later"): the absorbed text ends exactly at the end of the modifier, whatever white space precedes it
_L3 = lambda p: f'letter_char({p}0) + letter_char({p}1) + letter_char({p}2)'
CONTRACTS += [
    Contract('c01.add_mod.suffix_absorbed', BMEX + 'add_mod', ['C01', 'C07'], modular=['id:c12.env.try_merge_modifier_token'],
             params=dict(dict((f'{p}{k}', Int(0, 25)) for p in 'xyz' for k in range(3)),
                         ent=Expr(_L3('x')), suf=Expr(_L3('y')), rest=Expr(_L3('z')),
                         self=Rec(DT + 'base_merged.py::BaseMergedExtractor', dict(config=Config(), options=Const(0))),
                         source=Expr('ent + "  " + suf + " " + rest'),
                         e0=Rec(RT + 'extractor.py::ExtractResult', dict(start=Const(0), length=Const(3), text=Expr('ent'), type=Const('time'),
                                                                        data=Const(None), meta_data=Const(None))),
                         extract_results=Expr('[e0]')),
             regex_env={'suffix_after_regex': {'mode': 'match', 'assume': 'M.start() == 0 and M.group() == suf'}},
             ensures=[('the-entity-ends-exactly-at-the-end-of-the-suffix-modifier', 'e0.start == 0 and e0.length == 8'),
                      ('its-text-is-the-entity-the-blanks-and-the-modifier', 'e0.text == ent + "  " + suf')],
             note='layout: a three-letter entity, two blanks, a three-letter suffix modifier, a blank, other text (letters symbolic); '
                  'the suffix pattern matches exactly the modifier word at the start of the text after the entity'),
]

# ---- the CJK number parser rewrites traditional characters for its sub-parsers on a COPY: the reported text is the original
CJKP = NUM + 'number/cjk_parsers.py::CJKNumberParser.'
_CJK_PR = Rec(RT + 'parser.py::ParseResult', dict(start=Int(0), length=Int(1), text=Str(), type=Str(), data=Const(None), meta_data=Const(None),
                                                 value=Int(), resolution_str=Str()))
CONTRACTS += [
    Contract('c01.env.cjk_int_parse', CJKP + 'int_parse', ['C01'], returns=_CJK_PR, params=dict(self=Opaque(), source=Opaque()), ensures=[],
             assumed='the integer sub-parser returns some parse result (its text field is overwritten by parse)'),
    Contract('c01.cjk_parser.parse.text_restored', CJKP + 'parse', ['C01', 'C03'], decorators=['precision'], modular=['id:c01.env.cjk_int_parse'],
             params=dict(a0=Int(0, 25), a1=Int(0, 25),
                         self=Rec(NUM + 'number/cjk_parsers.py::CJKNumberParser',
                                  dict(config=Config(tables=dict(trato_sim_map=Map('str', 'str'))))),
                         source=Rec(RT + 'extractor.py::ExtractResult',
                                    dict(start=Int(0), length=Const(2), text=Expr('letter_char(a0) + letter_char(a1)'), type=Str(),
                                         data=Const('IntegerChs'), meta_data=Const(None)))),
             ensures=[('the-reported-text-is-the-text-that-was-extracted', 'result.text == old(source).text'),
                      ('the-extract-result-handed-in-is-not-rewritten', 'source.text == old(source).text')],
             note='two characters standing for any characters (letters as place holders), an arbitrary traditional-to-simplified table'),
]

# ---- C12 (Chinese merged extractor): entries swallowed by a new, longer entity are removed wherever they sit in the list
ZME = DT + 'chinese/merged_extractor.py::ChineseMergedExtractor.'
CONTRACTS += [
    Contract('c12.chinese.move_overlap', ZME + 'move_overlap', ['C12'], unroll=6,
             params=dict(self=Rec(DT + 'chinese/merged_extractor.py::ChineseMergedExtractor', {}),
                         d0=_E(0), d1=_E(1), src=_E(2), destination=Expr('[d0, d1]'), source=Expr('src')),
             ensures=[('an-entry-whose-text-is-part-of-the-new-entity-and-that-shares-its-start-or-its-end-is-dropped',
                       ' and '.join(f'((len([r for r in result if r is d{i}]) == 0) == (d{i}.text in src.text and '
                                    f'(src.start == d{i}.start or src.start + src.length == d{i}.start + d{i}.length)))' for i in range(2))),
                      ('nothing-else-changes', 'len(result) <= 2')],
             note='two existing entries with arbitrary spans and texts, one new entity; ends are exclusive (start + length)'),
]

# ---- C01 / C12 (Chinese merged extractor): a modifier character is absorbed only when it directly follows the entity
_ZMOD_ENV = {'before_regex': {'mode': 'match', 'literal': '后'}, 'after_regex': 'none', 'until_regex': 'none',
             'since_prefix_regex': 'none', 'since_suffix_regex': 'none', 'equal_regex': 'none'}


def _zh_add_mod(cid, gap, post, note):
    return Contract(cid, ZME + 'add_mod', ['C01', 'C12'], unroll=4,
                    params=dict(dict((f'{p}{k}', Int(0, 25)) for p in 'xz' for k in range(3)),
                                ent=Expr(_L3('x')), rest=Expr(_L3('z')),
                                self=Rec(DT + 'chinese/merged_extractor.py::ChineseMergedExtractor', dict(config=Config())),
                                source=Expr(f'ent + "{gap}后" + rest'),
                                e0=Rec(RT + 'extractor.py::ExtractResult', dict(start=Const(0), length=Const(3), text=Expr('ent'), type=Const('date'),
                                                                               data=Const(None), meta_data=Const(None))),
                                extract_results=Expr('[e0]')),
                    regex_env=_ZMOD_ENV, ensures=post, note=note)


CONTRACTS += [
    _zh_add_mod('c01.chinese.add_mod.modifier_elsewhere', 'x',
                [('an-entity-is-not-stretched-to-a-modifier-character-further-on', 'e0.start == 0 and e0.length == 3 and e0.text == ent')],
                'layout: entity, one other character, the modifier character 后, more text: the modifier does not follow the entity'),
    _zh_add_mod('c01.chinese.add_mod.modifier_adjacent', '',
                [('the-modifier-character-right-after-the-entity-is-absorbed-with-the-right-text',
                  'e0.start == 0 and e0.length == 4 and e0.text == ent + "后"')],
                'layout: entity directly followed by the modifier character 后'),
]

# ---- C01 (Chinese units): "三斤半": the 半 that directly follows a unit entity is absorbed, text and span together
ZUC = NWU + 'number_with_unit/chinese/extractors.py::ChineseNumberWithUnitExtractorConfiguration'
_SPAN_ER = lambda: Rec(RT + 'extractor.py::ExtractResult', dict(start=Int(0), length=Int(1), text=Str(), type=Str(), data=Const(None),
                                                               meta_data=Const(None)))
CONTRACTS += [
    Contract('c01.chinese.expand_half_suffix', ZUC + '.expand_half_suffix', ['C01'], unroll=4,
             params=dict(self=Rec(ZUC, dict(_half_unit_regex=Const('half_rx'))), source=Str(), e0=_SPAN_ER(), n0=_SPAN_ER(),
                         result=Expr('[e0]'), numbers=Expr('[n0]')),
             requires=['e0.start + e0.length <= len(source)', 'e0.text == source[e0.start:e0.start + e0.length]',
                       'n0.start + n0.length <= len(source)', 'n0.text == source[n0.start:n0.start + n0.length]'],
             regex_env={'half_rx': {'mode': 'any'}},
             ensures=[('text-is-still-the-slice-of-the-query', 'e0.text == source[e0.start:e0.start + e0.length]'),
                      ('span-stays-inside-and-keeps-its-start',
                       'e0.start == old(e0).start and e0.start + e0.length <= len(source) and e0.length >= old(e0).length'),
                      ('grows-only-by-an-adjacent-number',
                       'e0.length == old(e0).length or (n0.start == old(e0).start + old(e0).length and e0.length == old(e0).length + n0.length)')],
             note='one unit entity and one number entity with arbitrary spans; whether the number is a "half" word is an environment value'),
]
