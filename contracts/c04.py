"""C04 — spelled-out numbers: the stack / round-number arithmetic of BaseNumberParser.__get_int_value on the token
sequences of standard numerals (token words and table values symbolic), plus a bounded end-to-end enumeration."""
from .common import *

NP = NUM + 'number/parsers.py::BaseNumberParser.'
_CFG = Config(tables=dict(cardinal_number_map=Map('str', 'int', 0, None), ordinal_number_map=Map('str', 'int', 1, None),
                          round_number_map=Map('str', 'int', 2, None)),
              values=dict(written_integer_separator_texts=Const(['and'])),
              funcs=dict(resolve_composite_number=(['str'], 'int', None, None)))
CM, OM, RM = 'self.config.cardinal_number_map', 'self.config.ordinal_number_map', 'self.config.round_number_map'


def _setup(I, loc):
    # BaseNumberParser.__init__: round_number_set = list(config.round_number_map.keys()): same membership as the table
    loc['self'].fields['round_number_set'] = loc['self'].fields['config'].tables['round_number_map']


def _layout(groups, rounds, ordinal_last=False):
    """groups: list (left to right) of shapes; a shape is a string over  c (cardinal word)  H (the hundred word)
    a (the separator 'and')  o (ordinal word); rounds: number of round words between the groups (len(groups) - 1)."""
    params = {}
    req = []
    toks = []
    terms = []
    params['H'] = Str()
    req.append(f'H in {RM} and H != "and"')
    rn = [f'R{j}' for j in range(rounds, 0, -1)]       # R_k ... R_1, left to right
    for r in rn:
        params[r] = Str()
        req.append(f'{r} in {RM} and {r} != "and" and {RM}[{r}] > {RM}[H]')
    for a, b in zip(rn, rn[1:]):
        req.append(f'{RM}[{a}] > {RM}[{b}]')
    for gi, shape in enumerate(groups):
        vals = []
        pending = None
        for k, ch in enumerate(shape):
            w = f'w{gi}_{k}'
            if ch == 'c':
                params[w] = Str()
                req.append(f'{w} in {CM} and not ({w} in {OM}) and not ({w} in {RM}) and {w} != "and"')
                toks.append(w)
                vals.append(f'{CM}[{w}]')
            elif ch == 'o':
                params[w] = Str()
                req.append(f'{w} in {OM} and not ({w} in {CM}) and not ({w} in {RM}) and {w} != "and"')
                toks.append(w)
                vals.append(f'{OM}[{w}]')
            elif ch == 'H':
                toks.append('H')
                # a bare hundred word ("mille cent", French / German / Dutch / Italian) counts once
                vals = [f'{RM}[H] * ({" + ".join(vals)})'] if vals else [f'{RM}[H]']
            elif ch == '1':
                vals = ['1']          # no count word before the round word ("mille deux cents"): the round word counts once
            elif ch == 'a':
                toks.append('"and"')
        g = '(' + ' + '.join(vals) + ')' if vals else '0'
        # an ordinal word after cardinals is added when it does not exceed the value before it (ninety-ninth); otherwise
        # the code multiplies (the fraction reading), which is not a standard ordinal numeral
        if 'o' in shape and shape.index('o') > 0 and shape[shape.index('o') - 1] == 'c':
            k = shape.index('o')
            req.append(f'{CM}[w{gi}_{k - 1}] >= {OM}[w{gi}_{k}]')
        if gi < len(groups) - 1:
            terms.append(f'{RM}[{rn[gi]}] * {g}')
            toks.append(rn[gi])
        else:
            terms.append(g)
    req.append(f'not ("and" in {CM}) and not ("and" in {OM}) and not ("and" in {RM}) and self.config.resolve_composite_number("and") == 0')
    params['self'] = Rec(NUM + 'number/parsers.py::BaseNumberParser', dict(config=_CFG))
    params['matches'] = Expr('[' + ', '.join(toks) + ']')
    return params, req, ' + '.join(terms)


def _mk(name, groups, note=''):
    params, req, val = _layout(groups, len(groups) - 1)
    return Contract(f'c04.get_int_value.{name}', NP + '__get_int_value', ['C04'], setup=_setup, unroll=40, max_recursion=4,
                    params=params, requires=req,
                    ensures=[('value-is-the-positional-sum', f'result == {val}')],
                    note=note or 'token words and table values symbolic; round words strictly decreasing left to right and above the hundred word')


GROUPS = ['c', 'cc', 'cH', 'cHc', 'cHcc', 'cHac', 'cHacc']
ORDINAL_GROUPS = ['o', 'co', 'cHo', 'cHco', 'cHao', 'cHaco']
CONTRACTS = [_mk('group.' + g, [g]) for g in GROUPS + ORDINAL_GROUPS]

import itertools
for _k in (1, 2, 3, 4):
    for _gs in itertools.product(('c', 'cHacc'), repeat=_k):
        for _last in ('c', 'cHacc', ''):
            _name = '.'.join(_gs) + '.' + (_last or 'none')
            CONTRACTS.append(_mk(f'rounds{_k}.' + _name, list(_gs) + [_last]))
# ordinal endings after round words: "two million and first", "three thousand two hundred and twenty first"
for _gs, _last in ((['c'], 'ao'), (['c'], 'cHaco'), (['cHacc', 'c'], 'co'), (['c', 'c', 'c'], 'o')):
    CONTRACTS.append(_mk('rounds%d.ordinal.%s.%s' % (len(_gs), '.'.join(_gs), _last), _gs + [_last]))
# round words without a count word before them: French "mille deux cents" (1200), "mille cent" (1100), "deux mille cent" (2100),
# German "tausendzweihundert", Dutch "duizend tweehonderd", Italian "mille duecento"
for _name, _gs in (('bare.R.c', ['1', 'c']), ('bare.R.cH', ['1', 'cH']), ('bare.R.cHc', ['1', 'cHc']), ('bare.R.H', ['1', 'H']),
                   ('c.R.H', ['c', 'H']), ('c.R.Hc', ['c', 'Hc']), ('bare.R.c.R.c', ['1', 'c', 'c'])):
    CONTRACTS.append(_mk(_name, _gs, note='a round word with no count word before it counts once'))
# a bare round word after the separator word: Portuguese "dois milhões e mil" (2 001 000), Spanish "dos millones y mil"
for _name, _gs in (('c.R.a.bare.R', ['c', 'a1', '']), ('c.R.a.bare.R.c', ['c', 'a1', 'c'])):
    CONTRACTS.append(_mk(_name, _gs, note='a round word preceded only by the separator word counts once'))


def spelling_enumeration(tier, seed):
    """BOUNDED end-to-end stand-in (closed/number_spelling.py): standard English spellings (with / without 'and', hyphenated or
    spaced tens; cardinal and ordinal) and standard Chinese numerals of every integer below the exhaustive bound, every power
    of ten and 10^k +/- 1 below 10^15 and a seeded sample, through the real recognisers.  Never counted as proved."""
    import json
    import os
    import re
    import subprocess
    import time
    from concurrent.futures import ThreadPoolExecutor
    VERIF = os.path.dirname(os.path.dirname(os.path.abspath(__file__)))
    bound, samples = (2000, 300) if tier != 'thorough' else (10000, 4000)
    teen_group = re.compile(r'\b(ten|eleven|twelve|thirteen|fourteen|fifteen|sixteen|seventeen|eighteen|nineteen)\s+'
                            r'(thousand|million|billion|trillion)\b')

    def run(cul):
        t0 = time.time()
        p = subprocess.run(['/venv/bin/python', '-W', 'ignore', os.path.join(VERIF, 'closed', 'number_spelling.py'), cul,
                            str(bound), str(samples), str(seed if tier == 'thorough' else 1)], capture_output=True, text=True, timeout=3000)
        try:
            return cul, json.loads(p.stdout), time.time() - t0
        except Exception:
            return cul, {'error': (p.stdout + p.stderr)[-500:]}, time.time() - t0
    out = []
    with ThreadPoolExecutor(max_workers=3) as ex:
        for cul, res, dt in ex.map(run, ['english', 'chinese', 'german']):
            name = f'spelling/{cul}'
            if 'error' in res:
                out.append(dict(name=name, kind='closed', verdict='unknown', detail=res['error']))
                continue
            what = (f'{name}: BOUNDED stand-in: {res["cases"]} spellings (all n < {bound}, powers of ten and 10^k +/- 1 below 10^15, '
                    f'{samples} seeded samples) through the real recogniser')
            offs = res['offenders']
            # KF-C04-1: ordinal spellings with a group "<ten..nineteen> <round word>" (SuffixBasicOrdinalRegex lacks TenToNineteenIntegerRegex)
            known = [o for o in offs if cul == 'english' and o[0] == 'ordinal' and teen_group.search(o[2])]
            new = [o for o in offs if o not in known]
            d = dict(name=name, kind='closed', backend='closed-eval', seconds=round(dt, 1), bounded=what,
                     witness_key='ordinal-teen-group' if cul == 'english' else None)
            if res.get('offender_count', 0) > len(offs):
                what += f' ({res["offender_count"]} offenders, first {len(offs)} listed)'
            if new:
                d.update(verdict='sat', replayed=True, all_known=False, witness=new[0][2], offenders=new[:50],
                         detail=f'{len(new)} spellings are not recognised as one entity with their value, e.g. {new[:3]}')
            elif known:
                d.update(verdict='sat', replayed=True, all_known=True, witness=known[0][2],
                         detail=f'{len(known)} offenders, all of the known class (ordinal with a ten..nineteen group before a round word), e.g. {known[:2]}')
            else:
                d.update(verdict='unsat', detail=what)
            out.append(d)
    return out


spelling_enumeration.props = ['C04']
CLOSED = [spelling_enumeration]


def english_table_facts(tier, seed):
    """Closed (finite, exact): the table preconditions of the layout contracts hold for the words of the standard English
    spellings on the real parser configuration (closed/number_tables.py)."""
    import json
    import os
    import subprocess
    VERIF = os.path.dirname(os.path.dirname(os.path.abspath(__file__)))
    p = subprocess.run(['/venv/bin/python', '-W', 'ignore', os.path.join(VERIF, 'closed', 'number_tables.py')],
                       capture_output=True, text=True, timeout=300)
    try:
        r = json.loads(p.stdout)
    except Exception:
        return [dict(name='tables/english-number-words', kind='closed', verdict='unknown', detail=(p.stdout + p.stderr)[-500:])]
    if r['bad']:
        return [dict(name='tables/english-number-words', kind='closed', verdict='sat', backend='closed-eval', replayed=True,
                     witness=r['bad'][0], detail=f'{len(r["bad"])} table facts fail: {r["bad"][:5]}')]
    return [dict(name='tables/english-number-words', kind='closed', verdict='unsat', backend='closed-eval', count=r['checked'],
                 detail=f'{r["checked"]} facts: number words have their values and are in exactly the table the contracts assume; '
                        'round words 100 < 10^3 < 10^6 < 10^9 < 10^12; the separator word is in no table and resolves to 0')]


english_table_facts.props = ['C04']
CLOSED.append(english_table_facts)
