"""Date-time utilities (recognizers_date_time/date_time/utilities.py): the formatting / validity guard layer every
resolved value passes through (C11), calendar arithmetic (C08, C09, C06), time-of-day helpers (C07), spans (C10)."""
from .common import *

U = DT + 'utilities.py::'
DU = U + 'DateUtils.'
FU = U + 'DateTimeFormatUtil.'

WIDE_Y, WIDE_M, WIDE_D = Int(-50, 12000), Int(-5, 40), Int(-5, 40)

CONTRACTS = [
    # ------------------------------------------------------------------ validity guards (C11)
    Contract('dt.is_valid_date', DU + 'is_valid_date', ['C11', 'C06'], returns=Bool(), as_callee=True,
             params=dict(year=WIDE_Y, month=WIDE_M, day=WIDE_D),
             ensures=[('exact', 'result == valid_date(year, month, day)')]),
    Contract('dt.is_valid_time', DU + 'is_valid_time', ['C11'],
             params=dict(hour=Int(-5, 30), minute=Int(-5, 70), second=Int(-5, 70)),
             ensures=[('hour-minute-range', 'implies(result, 0 <= hour and hour < 24 and 0 <= minute and minute < 60 and second >= 0)'),
                      ('accepts-valid', 'implies(0 <= hour and hour < 24 and 0 <= minute and minute < 60 and 0 <= second and second < 60, result)')]),
    Contract('dt.safe_create_from_value', DU + 'safe_create_from_value', ['C11', 'C06', 'C07'],
             params=dict(seed=DateTime(1, 9999), year=WIDE_Y, month=WIDE_M, day=WIDE_D, hour=Int(-2, 26), minute=Int(-2, 62), second=Int(0, 99)),
             raises={'ValueError': 'second >= 60'},
             ensures=[('valid-fields-give-that-datetime',
                       'implies(valid_date(year, month, day) and 0 <= hour and hour < 24 and 0 <= minute and minute < 60, '
                       'result.year == year and result.month == month and result.day == day and '
                       'sec_of_day(result) == hour * 3600 + minute * 60 + second)'),
                      ('otherwise-the-seed',
                       'implies(not (valid_date(year, month, day) and 0 <= hour and hour < 24 and 0 <= minute and minute < 60), '
                       'result == seed)')],
             note='is_valid_time has no upper bound on seconds: for second >= 60 datetime() raises ValueError (recorded; the time '
                  'regexes only produce 0..59)'),
    Contract('dt.safe_create_from_min_value', DU + 'safe_create_from_min_value', ['C11', 'C06', 'C09'],
             params=dict(year=WIDE_Y, month=WIDE_M, day=WIDE_D),
             ensures=[('valid-date-at-midnight-or-min-value',
                       'result == (date_with(ordinal(year, month, day), 0) if valid_date(year, month, day) else date_with(1, 0))')]),
    Contract('dt.safe_create_date_resolve_overflow', DU + 'safe_create_date_resolve_overflow', ['C11'],
             params=dict(year=Int(1, 9000), month=Int(1, 36), day=Int(1, 31)),
             ensures=[('valid-date-or-min-value',
                       'result == date_with(1, 0) or (sec_of_day(result) == 0 and result.day == day and '
                       '(result.year * 12 + result.month) == (year * 12 + month))'),
                      ('in-range-month-is-kept', 'implies(month <= 12 and valid_date(year, month, day), '
                                                 'result == date_with(ordinal(year, month, day), 0))')]),
    Contract('dt.is_valid_datetime', DU + 'is_valid_datetime', ['C11'],
             params=dict(date=DateTime(1, 9999)),
             ensures=[('min-value-is-the-invalid-marker', 'result == (not (ordinal_of(date) == 1 and sec_of_day(date) == 0))')]),
    # ------------------------------------------------------------------ formatters (C11, C06, C07)
    Contract('dt.format_date', FU + 'format_date', ['C11', 'C06'],
             params=dict(date=DateTime(1, 9999)),
             ensures=[('YYYY-MM-DD', 'result == date_str(date.year, date.month, date.day)'),
                      ('length-10', 'len(result) == 10')]),
    Contract('dt.format_time', FU + 'format_time', ['C11', 'C07'],
             params=dict(time=DateTime(1, 9999)),
             ensures=[('HH:MM:SS', 'result == time_str(time.hour, time.minute, time.second)'), ('length-8', 'len(result) == 8')]),
    Contract('dt.format_date_time', FU + 'format_date_time', ['C11'],
             params=dict(date_time=DateTime(1, 9999)),
             ensures=[('date-space-time', 'result == date_str(date_time.year, date_time.month, date_time.day) + " " + '
                                          'time_str(date_time.hour, date_time.minute, date_time.second)')]),
    Contract('dt.luis_date', FU + 'luis_date', ['C06', 'C09', 'C11'],
             params=dict(year=Int(-1, 9999), month=Int(-1, 12), day=Int(1, 31)),
             requires=['year != 0 and month != 0'],
             ensures=[('definite', 'implies(year != -1, result == fmt(year, 4) + "-" + fmt(month, 2) + "-" + fmt(day, 2))'),
                      ('year-open', 'implies(year == -1 and month != -1, result == "XXXX-" + fmt(month, 2) + "-" + fmt(day, 2))'),
                      ('year-month-open', 'implies(year == -1 and month == -1, result == "XXXX-XX-" + fmt(day, 2))')]),
    Contract('dt.luis_time', FU + 'luis_time', ['C07'],
             params=dict(hour=Int(0, 24), minute=Int(0, 59), second=Int(0, 59)),
             ensures=[('with-seconds', 'result == fmt(hour, 2) + ":" + fmt(minute, 2) + ":" + fmt(second, 2)')]),
    Contract('dt.luis_time.no_seconds', FU + 'luis_time', ['C07'],
             params=dict(hour=Int(0, 24), minute=Int(0, 59)),
             ensures=[('hh:mm', 'result == fmt(hour, 2) + ":" + fmt(minute, 2)')]),
    Contract('dt.short_time', FU + 'short_time', ['C07'],
             params=dict(hour=Int(0, 24), minute=Int(0, 59), second=Int(0, 59)),
             ensures=[('T-hh-mm-ss', 'result == "T" + fmt(hour, 2) + ":" + fmt(minute, 2) + ":" + fmt(second, 2)')]),
    Contract('dt.short_time.hour_only', FU + 'short_time', ['C07'],
             params=dict(hour=Int(0, 24)),
             ensures=[('T-hh', 'result == "T" + fmt(hour, 2)')]),
    Contract('dt.luis_date_time', FU + 'luis_date_time', ['C07', 'C11'],
             params=dict(time=DateTime(1, 9999)),
             ensures=[('dateTtime', 'result == date_str(time.year, time.month, time.day) + "T" + '
                                    'time_str(time.hour, time.minute, time.second)')]),
    # ------------------------------------------------------------------ weekday arithmetic (C08, C09)
    Contract('dt.this', DU + 'this', ['C08', 'C09'], returns=DateTime(1949, 2091),
             params=dict(from_date=DateTime(1950, 2090), day_of_week=Int(0, 7)),
             ensures=[('requested-weekday', 'result.isoweekday() == (day_of_week if day_of_week >= 1 else 7)'),
                      ('same-iso-week', 'monday_of(ordinal_of(result)) == monday_of(ordinal_of(from_date))'),
                      ('time-of-day-kept', 'sec_of_day(result) == sec_of_day(from_date)')]),
    Contract('dt.next', DU + 'next', ['C08'], returns=DateTime(1949, 2091),
             params=dict(from_date=DateTime(1950, 2090), day_of_week=Int(0, 7)),
             ensures=[('requested-weekday', 'result.isoweekday() == (day_of_week if day_of_week >= 1 else 7)'),
                      ('following-iso-week', 'monday_of(ordinal_of(result)) == monday_of(ordinal_of(from_date)) + 7'),
                      ('time-of-day-kept', 'sec_of_day(result) == sec_of_day(from_date)')]),
    Contract('dt.last', DU + 'last', ['C08'],
             params=dict(from_date=DateTime(1950, 2090), day_of_week=Int(0, 7)),
             ensures=[('requested-weekday', 'result.isoweekday() == (day_of_week if day_of_week >= 1 else 7)'),
                      ('preceding-iso-week', 'monday_of(ordinal_of(result)) == monday_of(ordinal_of(from_date)) - 7'),
                      ('time-of-day-kept', 'sec_of_day(result) == sec_of_day(from_date)')]),
    Contract('dt.is_leap_year', DU + 'is_leap_year', ['C09'],
             params=dict(year=Int(1, 9999)),
             ensures=[('gregorian', 'result == is_leap(year)')]),
]

TU = U + 'TimexUtil.'
AL = U + 'AgoLaterUtil.'

CONTRACTS += [
    # ------------------------------------------------------------------ dates without a year (C09) / with a year (C06)
    Contract('dt.generate_dates.with_year', DU + 'generate_dates', ['C06'],
             params=dict(no_year=Const(False), reference=DateTime(1950, 2090), year=Int(1900, 2099), month=MONTH, day=DAY),
             ensures=[('both-are-that-date-whatever-the-reference',
                       'result[0] == result[1] and result[0] == (date_with(ordinal(year, month, day), 0) '
                       'if valid_date(year, month, day) else date_with(1, 0))')]),
    Contract('dt.generate_dates.no_year', DU + 'generate_dates', ['C09'],
             params=dict(no_year=Const(True), reference=DateTime(1950, 2090), year=Expr('reference.year'), month=MONTH, day=DAY),
             requires=['day <= days_in_month(2000, month)', 'not (month == 2 and day == 29)'],
             ensures=[('future-is-earliest-on-or-after-reference-date',
                       'result[0] == date_with(earliest_on_or_after(month, day, ordinal_of(reference), reference.year), 0)'),
                      ('past-is-latest-strictly-before-reference-date',
                       'result[1] == date_with(latest_before(month, day, ordinal_of(reference), reference.year), 0)')]),
    Contract('dt.generate_dates.feb29', DU + 'generate_dates', ['C09'],
             params=dict(no_year=Const(True), reference=DateTime(1950, 2090), year=Expr('reference.year'), month=Const(2), day=Const(29)),
             ensures=[('future-is-next-leap-day-on-or-after-reference-date',
                       'result[0] == date_with(earliest_on_or_after(2, 29, ordinal_of(reference), reference.year), 0)'),
                      ('past-is-latest-leap-day-strictly-before-reference-date',
                       'result[1] == date_with(latest_before(2, 29, ordinal_of(reference), reference.year), 0)')]),
    # ------------------------------------------------------------------ am/pm second reading (C07)
    Contract('dt.to_pm', FU + 'to_pm', ['C07', 'C11'],
             params=dict(has_t=Bool(), hh=Int(0, 23), shape=Int(0, 2), mm=Int(0, 59), ss=Int(0, 59),
                         tail=Expr('"" if shape == 0 else (":" + fmt(mm, 2) if shape == 1 else ":" + fmt(mm, 2) + ":" + fmt(ss, 2))'),
                         source=Expr('("T" if has_t else "") + fmt(hh, 2) + tail')),
             ensures=[('twelve-hours-later-rest-unchanged',
                       'result == ("T" if has_t else "") + fmt((hh + 12) % 24, 2) + tail')],
             note='every hour 00..23: _resolve_ampm hands the end of a time range to to_pm after the range has already been '
                  'carried past noon ("from 11:05 to 1:05": first reading ends at 13:05)'),
    # ------------------------------------------------------------------ spans and period counts (C10)
    Contract('dt.luis_time_span', FU + 'luis_time_span', ['C10'],
             params=dict(begin_time=DateTime(1950, 2090), end_time=DateTime(1950, 2090)),
             requires=['begin_time <= end_time'],
             ensures=[('denotes-end-minus-begin',
                       'result == pt_duration_str(total_seconds_of(end_time) - total_seconds_of(begin_time))')]),
    Contract('dt.period_unit_count.days', TU + 'generate_date_period_timex_unit_count', ['C10'],
             params=dict(begin=DateTime(1950, 2090, midnight=True), end=DateTime(1950, 2090, midnight=True), timex_type=Const(0)),
             ensures=[('days-between', 'result == ordinal_of(end) - ordinal_of(begin)')]),
    Contract('dt.period_unit_count.months', TU + 'generate_date_period_timex_unit_count', ['C10'],
             params=dict(begin=DateTime(1950, 2090, midnight=True), end=DateTime(1950, 2090, midnight=True), timex_type=Const(2)),
             ensures=[('months-between', 'result == (end.year - begin.year) * 12 + end.month - begin.month')]),
    Contract('dt.period_unit_count.years', TU + 'generate_date_period_timex_unit_count', ['C10'],
             params=dict(begin=DateTime(1950, 2090, midnight=True), end=DateTime(1950, 2090, midnight=True), timex_type=Const(3)),
             ensures=[('years-between', 'result * 12 == (end.year - begin.year) * 12 + end.month - begin.month')]),
    Contract('dt.period_timex_str.days', TU + 'generate_date_period_timex_str', ['C10'],
             params=dict(begin=DateTime(1950, 2090, midnight=True), end=DateTime(1950, 2090, midnight=True), timex_type=Const(0),
                         timex1=Str(), timex2=Str()),
             requires=['begin <= end'],
             ensures=[('triple-with-day-count',
                       'result == "(" + timex1 + "," + timex2 + ",P" + str(ordinal_of(end) - ordinal_of(begin)) + "D)"')]),
    # ------------------------------------------------------------------ N units ago / from now (C08)
    Contract('dt.get_date_result.days_weeks', AL + 'get_date_result', ['C08'],
             params=dict(unit_str=Str(), num=Int(1, 5000), reference=DateTime(1950, 2090), is_future=Bool(), mode=Expr('repo_const("' + DT + 'utilities.py::AgoLaterMode", "DATE")')),
             requires=['unit_str == "D" or unit_str == "W"'],
             ensures=[('reference-plus-or-minus-N-days-or-7N-days',
                       'result.success and result.future_value == result.past_value and '
                       'ordinal_of(result.future_value) == ordinal_of(reference) + (1 if is_future else -1) * num * (1 if unit_str == "D" else 7) '
                       'and sec_of_day(result.future_value) == sec_of_day(reference)'),
                      ('timex-is-that-date',
                       'result.timex == date_str(result.future_value.year, result.future_value.month, result.future_value.day)')]),
    Contract('dt.get_date_result.clock_units', AL + 'get_date_result', ['C08'],
             params=dict(unit_str=Str(), num=Int(1, 5000), reference=DateTime(1950, 2090), is_future=Bool(), mode=Expr('repo_const("' + DT + 'utilities.py::AgoLaterMode", "DATETIME")')),
             requires=['unit_str == "H" or unit_str == "M" or unit_str == "S"'],
             ensures=[('reference-plus-or-minus-N-units',
                       'result.success and result.future_value == result.past_value and '
                       'total_seconds_of(result.future_value) == total_seconds_of(reference) + (1 if is_future else -1) * num * '
                       '(3600 if unit_str == "H" else (60 if unit_str == "M" else 1))')]),
]
