"""Per-property metadata for the evidence files."""
from pyvc.runner import register_meta

register_meta('C15', level='proof',
              explanation='contracts on the real TimexResolver / TimexRangeResolver helper functions, discharged by z3/cvc5',
              assumptions=['Decimal amounts are modelled as reals (exact when the product has <= 28 significant digits)',
                           'str(Decimal) is an uninterpreted injective function',
                           'regex-based parsing of TIMEX strings (TimexRegex) is outside these contracts: functions are verified on Timex objects'])

for _p, _e in {
    'C06': 'contracts on the date glue (regex groups -> TIMEX/value); regex layer assumed',
    'C07': 'contracts on the time glue (match_to_time, to_pm, merge_date_and_time, formatters)',
    'C08': 'contracts on weekday / N-units-ago calendar arithmetic',
    'C09': 'contracts on year-less date candidates (generate_dates, match_to_date)',
    'C10': 'contracts on span / period-count arithmetic',
    'C11': 'contracts on the validity and formatting guard layer',
}.items():
    register_meta(_p, level='proof', explanation=_e,
                  assumptions=['regex layer (which strings match, which group gets which substring) is assumed: R1 match geometry only',
                               'culture tables abstracted to declared ranges (environment values)',
                               'datedelta (missing package) month/year arithmetic not claimed'])

register_meta('C14', level='proof', explanation='round-trip contracts per TIMEX grammar alternative on the real parse/format code',
              assumptions=['re.match on the anchored TimexRegex patterns modelled structurally (pyvc/rxstruct.py)',
                           'str(Decimal) uninterpreted, injective, assumed to have the amount shape (false for exponent notation, e.g. 1E-8)',
                           '(start,end,duration) range TIMEX strings and Timex(...) keyword construction with partial time fields are not covered'])

register_meta('C17', level='proof', explanation='culture routing case split + model cache contracts with ghost origin',
              assumptions=['culture codes are lower-case-able ASCII of the form word or word-word; other shapes (digits, spaces) are not covered',
                           'cache modelled with two arbitrary pre-existing consistent entries; factory with two constructors',
                           'a registered constructor builds a model for exactly its (type, culture) and the given options (ghost origin)'])

register_meta('C02', level='proof', explanation='frame (effect) obligations over all functions + model cache contracts; lemma from frames to schedules is pen-and-paper',
              trusted=['effects/checker.py: syntactic frame analysis (alias taint, name-based call graph)'],
              assumptions=['no persistent writes => results are functions of arguments and immutable models (pen-and-paper lemma, not machine checked)',
                           'regex module C-level caches are transparent',
                           'no thread is started by the proof; interleavings are not explored'])

register_meta('C01', level='proof', explanation='contracts on the span glue (normalisation, sweep, token merge, modifier merge, model end offsets)',
              assumptions=['R1 match geometry; R2 end anchor (checked per culture); H_sign',
                           'str.lower / casefold / replace library models with the expanding code points computed from the running CPython',
                           'percentage/sequence/unit extractor sweeps and BaseMergedParser.parse modifier pop are not under contract'])
register_meta('C12', level='proof', explanation='contracts on the sweep and merge_all_tokens disjointness mechanisms',
              assumptions=['R1, R2, H_sign', 'add_to / add_mod / _select_candidates are not under contract (regex-layer dependent)'])

register_meta('C16', level='proof', explanation='tokenizers and the matcher offset glue proved; trie build/find bounded',
              assumptions=['BOUNDED (not proved): c16.trie.insert_then_find.bounded and c16.matcher.end_to_end.bounded stand in for '
                           'TrieTree.insert/find on fixed shapes',
                           'str.isspace/isdigit/isalpha are uninterpreted predicates of (string, position); ord() an uninterpreted code'])

register_meta('C13', level='proof', explanation='regular-language obligations + contracts on extract/parse/drop_leading_zeros',
              trusted=['relang/nfa.py: sre parse tree -> NFA with exact character-class alphabet and \\b from neighbour classes; product with spec automata'],
              assumptions=['IPv6 drop_leading_zeros layouts are bounded stand-ins', 'regexes with look-arounds (e-mail, URL, phone, hashtag, mention) assumed',
                           'sweep completeness (nothing dropped) not under contract'])

register_meta('C03', level='proof', explanation='contracts on the digit-literal value, sign and format glue',
              assumptions=['Decimal arithmetic under the 15-digit context is exact real arithmetic for the values involved',
                           'Decimal(0.1) behaves as one tenth after multiplication by a digit and rounding (finite lemma, tools/validate_lib.py)',
                           'layouts of literals are fixed per contract; the regex layer decides which literals are extracted'])

register_meta('C05', level='proof', explanation='contracts on table binding, key loop, compound currency arithmetic + closed exhaustive table evaluation',
              assumptions=['float arithmetic as reals', 'the closed table obligation is an exhaustive evaluation of the real package over the finite tables with the numeral 5',
                           'NumberWithUnitExtractor.extract not under contract'])

register_meta('C20', level='proof', explanation='polarity tables, registration, span/selection glue and tokenizer under contract; regular-language obligations on the real patterns',
              trusted=['relang/nfa.py: sre parse tree -> NFA with exact character-class alphabet and \\b from neighbour classes'],
              assumptions=['regex matches are environment values (R1 geometry, at most two per pattern in the extract contract)',
                           'grapheme.slice(s) == s and the emoji package (is_emoji) are external: grapheme is replaced by a shim on replay and in the closed end-to-end evaluation',
                           'BOUNDED (not proved): c20.match_value.contiguous.* stand in for match_value on three source tokens',
                           'that the tokens of a match occur contiguously among the tokens of the query (so that a listed expression scores above zero) is not under contract; it is exercised by the closed end-to-end enumeration only',
                           'an extractor that raises leaves parse_results unbound in ChoiceModel.parse (UnboundLocalError); no str input is known to reach it'])

register_meta('C04', level='other', explanation='the stack / round-number arithmetic of the real BaseNumberParser.__get_int_value proved per token layout (token words and table values symbolic); the end-to-end statement (spelling -> one entity with the value) only by a BOUNDED enumeration',
              assumptions=['which tokens the text_number_regex yields for a spelling, and that the extractor reports the spelling as one entity, are not under contract',
                           'layouts: groups c / cc / cH / cHc / cHcc / cHac / cHacc (c cardinal word, H hundred word, a the separator "and") and their ordinal endings; one to four round words strictly decreasing left to right with groups c or cHacc',
                           'table facts required by the contracts (the separator word is in no table and resolves to 0; cardinal words are neither ordinal nor round words) are preconditions; they are checked against the real English configuration by the closed obligation tables/english-number-words, not for other cultures',
                           'BOUNDED (not proved): spelling/english and spelling/chinese enumerate n < 2000 (quick) / 10000 (thorough), powers of ten, 10^k +/- 1 and seeded samples; German compound cardinals only below one million; Spanish, French, Portuguese, Italian, Dutch and Japanese spellings are not generated',
                           'Decimal(tmp_val) of an integer is that integer (15-digit context: exact below 10^15)'])
