"""Per-property metadata for the evidence files."""
from pyvc.runner import register_meta

register_meta('C15', level='proof',
              explanation='contracts on the real TimexResolver / TimexRangeResolver helper functions, discharged by z3/cvc5',
              assumptions=['Decimal amounts are modelled as reals (exact when the product has <= 28 significant digits)',
                           'str(Decimal) is an uninterpreted injective function',
                           'regex-based parsing of TIMEX strings (TimexRegex) is outside these contracts: functions are verified on Timex objects'])
