"""C02 — recognition is a pure function of (query, culture, options, reference): frame obligations (DESIGN §5.1)."""
import os
import subprocess
import sys

VERIF = os.path.dirname(os.path.dirname(os.path.abspath(__file__)))

CONTRACTS = []

_THREAD_REPLAY = r'''
import sys, threading
L = '/repo/Python/libraries'
for p in ['recognizers-text', 'recognizers-number']:
    sys.path.insert(0, f'{L}/{p}')
from recognizers_number import recognize_number
qs = ['one third', 'one point two three', 'two thirds of 7']
def run(out):
    out.append([[r.resolution.get('value') for r in recognize_number(q, 'en-us')] for q in qs])
a = []; run(a)
b = []; t = threading.Thread(target=run, args=(b,)); t.start(); t.join()
print('importing thread :', a[0]); print('second thread    :', b[0])
sys.exit(0 if a == b else 1)
'''


def frame_obligations(tier, seed):
    from effects import checker
    res = checker.run(tier, seed)
    for r in res:
        r['name'] = 'C02/' + r['name']
        if r['verdict'] == 'sat' and 'decimal' in r['name']:
            # executable witness: the same query on the importing thread and on a fresh thread
            p = subprocess.run(['/venv/bin/python', '-W', 'ignore', '-c', _THREAD_REPLAY], capture_output=True, text=True, timeout=120)
            r['replay_output'] = (p.stdout + p.stderr)[-2000:]
            r['replayed'] = p.returncode == 1
    return res


frame_obligations.props = ['C02']
CLOSED = [frame_obligations]
