"""Shared sort builders for the sidecar contracts."""
from pyvc.contract import Contract
from pyvc.sorts import *
from pyvc.symex import LoopSpec

TX = 'Python/libraries/datatypes-timex-expression/datatypes_timex_expression/'
DT = 'Python/libraries/recognizers-date-time/recognizers_date_time/date_time/'
RT = 'Python/libraries/recognizers-text/recognizers_text/'
NUM = 'Python/libraries/recognizers-number/recognizers_number/'
NWU = 'Python/libraries/recognizers-number-with-unit/recognizers_number_with_unit/'
SEQ = 'Python/libraries/recognizers-sequence/recognizers_sequence/'
CH = 'Python/libraries/recognizers-choice/recognizers_choice/'


def timex_sort(**over):
    """A Timex object as the constructor leaves it: every field present; fields not overridden are None/False.
    time=True adds the shared `__time` object (hour, minute, second all set); time='opt' makes it optional."""
    f = dict(now=Const(False), years=Const(None), months=Const(None), weeks=Const(None), days=Const(None),
             hours=Const(None), minutes=Const(None), seconds=Const(None), year=Const(None), month=Const(None),
             day_of_month=Const(None), day_of_week=Const(None), season=Const(None), week_of_year=Const(None),
             weekend=Const(False), week_of_month=Const(None), part_of_day=Const(None))
    time = over.pop('time', None)
    f.update(over)
    if time:
        t = Rec(TX + 'time.py::Time', dict(hour=Int(0, 23), minute=Int(0, 59), second=Int(0, 59)))
        f['__time'] = Opt(t, absent=True) if time == 'opt' else t
    return Rec(TX + 'timex.py::Timex', f)


YEAR = Int(1, 9999)
MONTH = Int(1, 12)
DAY = Int(1, 31)
