"""C13 — sequence entities: sweeps, parsers, IPv4 / GUID regular-language obligations."""
from .common import *
from .c01 import SWEEP_INV, ERLIST

SX = SEQ + 'sequence/extractors.py::'


def _seq_setup(I, loc):
    from pyvc import envmodel as E
    from pyvc.libb import NT
    rv = NT([E.CompiledPattern('rx0', 'rx0'), 'val0'])
    rv._fields, rv._name = ('re', 'val'), 'ReVal'
    loc['self'].fields['_regexes'] = [rv]


_SWEEP_POST = [('spans-inside-the-query-with-their-text',
                'forall(lambda a: result[a].start >= 0 and result[a].length >= 1 and '
                'result[a].start + result[a].length <= len(source) and '
                'result[a].text == source[result[a].start:result[a].start + result[a].length].strip(), 0, len(result))'),
               ('entities-do-not-overlap',
                'forall(lambda a, b: implies(a < b, result[a].start + result[a].length <= result[b].start), '
                '0, len(result), 0, len(result))')]

CONTRACTS = [
    Contract('c13.sequence_extractor.extract', SX + 'SequenceExtractor.extract', ['C13', 'C01', 'C12'], setup=_seq_setup,
             params=dict(self=Rec(SX + 'BaseGUIDExtractor', {}), source=Str()),
             regex_env={'rx0': {'count': 2}},
             loops={2: LoopSpec(invariant=['len(matched) == len(source)']),
                    3: LoopSpec(invariant=SWEEP_INV, types={'result': ERLIST})},
             ensures=_SWEEP_POST),
    Contract('c13.ip_extractor.extract', SX + 'BaseIpExtractor.extract', ['C13', 'C01', 'C12'], setup=_seq_setup,
             params=dict(self=Rec(SX + 'BaseIpExtractor', {}), source=Str()),
             regex_env={'rx0': {'count': 2}},
             loops={2: LoopSpec(invariant=['len(matched) == len(source)']),
                    3: LoopSpec(invariant=SWEEP_INV, types={'result': ERLIST})},
             ensures=_SWEEP_POST),
]
