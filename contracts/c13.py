"""C13 — sequence entities: sweeps, parsers, IPv4 / GUID regular-language obligations."""
from .common import *
from .c01 import SWEEP_INV, ERLIST

SX = SEQ + 'sequence/extractors.py::'


def _seq_setup(I, loc):
    from pyvc import envmodel as E
    from pyvc.libb import NT
    rv = NT([E.CompiledPattern('rx0', 'rx0'), 'val0'])
    rv._fields, rv._name = ('re', 'val'), 'ReVal'
    loc['self'].fields['_regexes'] = [rv]


_SWEEP_POST = [('spans-inside-the-query-with-their-text',
                'forall(lambda a: result[a].start >= 0 and result[a].length >= 1 and '
                'result[a].start + result[a].length <= len(source) and '
                'result[a].text == source[result[a].start:result[a].start + result[a].length].strip(), 0, len(result))'),
               ('entities-do-not-overlap',
                'forall(lambda a, b: implies(a < b, result[a].start + result[a].length <= result[b].start), '
                '0, len(result), 0, len(result))')]

CONTRACTS = [
    Contract('c13.sequence_extractor.extract', SX + 'SequenceExtractor.extract', ['C13', 'C01', 'C12'], setup=_seq_setup,
             params=dict(self=Rec(SX + 'BaseGUIDExtractor', {}), source=Str()),
             regex_env={'rx0': {'count': 2}},
             loops={2: LoopSpec(invariant=['len(matched) == len(source)']),
                    3: LoopSpec(invariant=SWEEP_INV, types={'result': ERLIST})},
             ensures=_SWEEP_POST),
    Contract('c13.ip_extractor.extract', SX + 'BaseIpExtractor.extract', ['C13', 'C01', 'C12'], setup=_seq_setup,
             params=dict(self=Rec(SX + 'BaseIpExtractor', {}), source=Str()),
             regex_env={'rx0': {'count': 2}},
             loops={2: LoopSpec(invariant=['len(matched) == len(source)']),
                    3: LoopSpec(invariant=SWEEP_INV, types={'result': ERLIST})},
             ensures=_SWEEP_POST),
]

SP_ = SEQ + 'sequence/parsers.py::'


def _ipv4_contracts():
    out = []
    import itertools
    # every way of writing four octets with 1..3 digits each (81 layouts), digits symbolic
    for lens in itertools.product((1, 2, 3), repeat=4):
        name = ''.join(map(str, lens))
        params = {}
        octs = []
        for o, ln in enumerate(lens):
            vs = []
            for d in range(ln):
                params[f'd{o}{d}'] = Int(0, 9)
                vs.append(f'd{o}{d}')
            octs.append('[' + ', '.join(vs) + ']')
        octets = '[' + ', '.join(octs) + ']'
        params['text'] = Expr(f'ipv4_text({octets})')
        out.append(Contract(f'c13.drop_leading_zeros.ipv4.{name}', SP_ + 'BaseIpParser.drop_leading_zeros', ['C13'], unroll=20,
                            params=params,
                            ensures=[('same-address-without-leading-zeros', f'result == ipv4_canon({octets})')]))
    return out


CONTRACTS += _ipv4_contracts()


def _ipv6_contracts():
    out = []

    def mk(cid, lens, ell):
        params = {}
        groups = []
        for g, ln in enumerate(lens):
            vs = []
            for d in range(ln):
                params[f'h{g}{d}'] = Int(0, 15)
                vs.append(f'h{g}{d}')
            groups.append('[' + ', '.join(vs) + ']')
        gs = '[' + ', '.join(groups) + ']'
        params['text'] = Expr(f'ipv6_text({gs}, {ell})')
        return Contract(cid, SP_ + 'BaseIpParser.drop_leading_zeros', ['C13'], unroll=48, params=params,
                        bounded='IPv6 layouts: one hextet of 1-4 digits at each of the 8 positions (others one digit), and compressed '
                                'forms with 1-3 hextets; hexadecimal digit values symbolic',
                        ensures=[('same-address-without-leading-zeros', f'result == ipv6_canon({gs}, {ell})')])
    for pos in range(8):
        for ln in (2, 3, 4):
            lens = [1] * 8
            lens[pos] = ln
            out.append(mk(f'c13.drop_leading_zeros.ipv6.exploded.p{pos}l{ln}', lens, -1))
    for lens, ell in [((4,), 0), ((4,), 1), ((2, 4), 1), ((3, 2), 0), ((1, 4, 4), 2), ((4, 4, 4), 3)]:
        out.append(mk('c13.drop_leading_zeros.ipv6.compressed.' + ''.join(map(str, lens)) + f'e{ell}', list(lens), ell))
    return out


CONTRACTS += _ipv6_contracts()

_ERP = Rec(RT + 'extractor.py::ExtractResult', dict(start=Int(0), length=Int(1), text=Str(), type=Str(), data=Const(None), meta_data=Const(None)))
CONTRACTS += [
    Contract('c13.sequence_parser.parse', SP_ + 'SequenceParser.parse', ['C13', 'C01'],
             params=dict(self=Rec(SP_ + 'SequenceParser', {}), source=_ERP),
             ensures=[('value-equals-text-and-span-copied',
                       'result.resolution_str == source.text and result.text == source.text and result.start == source.start and '
                       'result.length == source.length and result.type == source.type')]),
    Contract('c13.ip_parser.parse', SP_ + 'BaseIpParser.parse', ['C13', 'C01'], modular=['id:c13.drop_leading_zeros.any'],
             params=dict(self=Rec(SP_ + 'BaseIpParser', {}), ext_result=_ERP),
             ensures=[('span-copied', 'result.text == ext_result.text and result.start == ext_result.start and '
                                      'result.length == ext_result.length and result.type == ext_result.type')]),
    Contract('c13.drop_leading_zeros.any', SP_ + 'BaseIpParser.drop_leading_zeros', ['C13'], returns=Str(),
             params=dict(text=Str()),
             loops={0: LoopSpec(invariant=['0 <= i'])},
             ensures=[('terminates-without-exception', 'True')],
             note='safety only for arbitrary text: no exception (the functional contract is stated per layout)'),
]


def regular_language_obligations(tier, seed):
    """§5.2: the language of the real Ipv4Regex / GUIDRegex constants against specification automata."""
    import importlib.util
    import os
    import re
    import time
    import regex
    from relang import nfa, specs as S
    from pyvc.source import LIBS
    res = os.path.join(LIBS, 'recognizers-sequence', 'recognizers_sequence', 'resources')

    def load(fn):
        sp = importlib.util.spec_from_file_location(fn[:-3], os.path.join(res, fn))
        m = importlib.util.module_from_spec(sp)
        sp.loader.exec_module(m)
        return m
    out = []
    flags = re.I | re.S       # as compiled by RegExpUtility.get_safe_reg_exp

    def ob(name, pattern, spec, ascii_only, what):
        t0 = time.time()
        try:
            eq, wit, side, n = nfa.compare(pattern, flags, spec, ascii_only=ascii_only)
        except nfa.NotRegular as e:
            return dict(name=name, kind='closed', verdict='unknown', detail=f'pattern outside the regular subset: {e}')
        d = dict(name=name, kind='closed', backend='relang-product', seconds=round(time.time() - t0, 2),
                 detail=f'{what}: {n} product states explored', assumptions=['regular-language checker relang/nfa.py (sre parse tree -> NFA, exact character-class alphabet)'])
        if eq:
            d['verdict'] = 'unsat'
        else:
            real = bool(regex.fullmatch(pattern, wit, flags=regex.I | regex.S))
            d.update(verdict='sat', witness=wit, accepted_by=side, replayed=(real == (side == 'pattern')),
                     detail=f'{what}: witness {wit!r} is accepted by the {side} only; real regex engine fullmatch = {real}')
        return d
    ip = load('base_ip.py').BaseIp
    out.append(ob('relang/Ipv4Regex-language-ascii', ip.Ipv4Regex, S.Ipv4Spec(), True,
                  'over ASCII, fullmatch(Ipv4Regex) accepts exactly the dotted quads of numbers 0..255 with at most three digits each'))
    out.append(ob('relang/Ipv4Regex-language-all-code-points', ip.Ipv4Regex, S.Ipv4Spec(), False,
                  'over all code points, fullmatch(Ipv4Regex) accepts exactly the ASCII dotted quads'))
    g = load('base_GUID.py').BaseGUID
    gspec = S.UnionSpec(S.GuidElementSpec(), S.GuidElementSpec('{', '}'), S.GuidElementSpec('urn:uuid:'),
                        S.GuidElementSpec('%7b', '%7d'), S.GuidElementSpec("x'", "'"))
    out.append(ob('relang/GUIDRegex-language', g.GUIDRegex, gspec, False,
                  'fullmatch(GUIDRegex) accepts exactly 8-4-4-4-12 or 32 hexadecimal digits (any letter case), plain or wrapped in '
                  '{...}, urn:uuid:..., %7b...%7d, x\'...\''))
    return out


regular_language_obligations.props = ['C13']
CLOSED = [regular_language_obligations]

_MS, _ME = 'env_matches("rx0")[0].start()', 'env_matches("rx0")[0].end()'
_OWN = (f'({_MS} == 0 or not (source[{_MS} - 1].isdigit() or source[{_MS} - 1].isalpha())) and '
        f'({_ME} == len(source) or not (source[{_ME}].isdigit() or source[{_ME}].isalpha()))')

CONTRACTS += [
    Contract('c13.ip_extractor.complete', SX + 'BaseIpExtractor.extract', ['C13'], setup=_seq_setup,
             params=dict(self=Rec(SX + 'BaseIpExtractor', {}), source=Str()),
             regex_env={'rx0': {'count': 1, 'exact': True}},
             loops={2: LoopSpec(invariant=['len(matched) == len(source)', f'j <= {_ME} - {_MS}',
                                           f'forall(lambda k: matched[k] == ({_MS} <= k and k < {_MS} + j), 0, len(source))']),
                    3: LoopSpec(invariant=SWEEP_INV + [
                        f'forall(lambda k: matched[k] == ({_MS} <= k and k < {_ME}), 0, len(source))',
                        'len(result) <= 1', f'implies(i < {_ME}, len(result) == 0)', f'implies(last + 1 < i, last + 1 == {_MS})',
                        f'implies(i >= {_ME} and {_ME} > {_MS} and ({_OWN}), len(result) == 1 and result[0].start == {_MS} and '
                        f'result[0].length == {_ME} - {_MS})'], types={'result': ERLIST})},
             ensures=[('an-address-standing-as-its-own-token-is-reported-with-its-exact-span',
                       f'implies(len(env_matches("rx0")) == 1, implies({_ME} > {_MS} and ({_OWN}), len(result) == 1 and '
                       f'result[0].start == {_MS} and result[0].length == {_ME} - {_MS}))')],
             note='exactly one regex match (environment value); own token: neither neighbour is a digit or a letter'),
]

# an IPv6 address that begins (or ends) with the ellipsis at the very start (end) of the query: the guards that look at the
# neighbouring character must not look anywhere when there is no neighbour
CONTRACTS += [
    Contract(f'c13.ip_extractor.ellipsis_at_the_{where}', SX + 'BaseIpExtractor.extract', ['C13'], setup=_seq_setup, unroll=12,
             loops={'__no_global__': True},
             params=dict(self=Rec(SX + 'BaseIpExtractor', {}), h0=Int(0, 15), h1=Int(0, 15), source=Expr(text)),
             regex_env={'rx0': {'count': 1, 'exact': True, 'full': True}},
             ensures=[('the-address-is-reported-with-its-span',
                       'len(result) == 1 and result[0].start == 0 and result[0].length == len(source) and result[0].text == source')],
             note=f'layout {text}: the whole query is one match (environment value); hexadecimal digits symbolic')
    for where, text in (('start', '"::" + hex_char(h0) + hex_char(h1)'), ('end', 'hex_char(h0) + hex_char(h1) + "::"'))
]


def _ip_parse_value_contracts():
    """BaseIpParser.parse as a whole: the resolved value is the canonical form of the extracted text (not only for the
    helper drop_leading_zeros: a short-cut in parse that skips the helper is caught here)"""
    out = []
    for lens in ((1, 1, 1, 1), (2, 1, 1, 1), (3, 1, 1, 1), (1, 3, 1, 1), (1, 1, 1, 3), (3, 3, 3, 3), (2, 2, 2, 2)):
        name = ''.join(map(str, lens))
        params = {}
        octs = []
        for o, ln in enumerate(lens):
            vs = []
            for d in range(ln):
                params[f'd{o}{d}'] = Int(0, 9)
                vs.append(f'd{o}{d}')
            octs.append('[' + ', '.join(vs) + ']')
        octets = '[' + ', '.join(octs) + ']'
        params['self'] = Rec(SP_ + 'BaseIpParser', {})
        params['ext_result'] = Rec(RT + 'extractor.py::ExtractResult',
                                   dict(start=Int(0), length=Int(1), text=Expr(f'ipv4_text({octets})'), type=Str(), data=Const(None), meta_data=Const(None)))
        out.append(Contract(f'c13.ip_parser.parse.value.ipv4.{name}', SP_ + 'BaseIpParser.parse', ['C13'], unroll=20,
                            params=params,
                            ensures=[('the-value-is-the-address-without-leading-zeros', f'result.resolution_str == ipv4_canon({octets})'),
                                     ('text-and-span-copied', 'result.text == ext_result.text and result.start == ext_result.start')]))
    return out


CONTRACTS += _ip_parse_value_contracts()


def sequence_config_wiring(tier, seed):
    """Closed (evaluated on the real package; closed/sequence_config_wiring.py): the IP / GUID extractors of every registered
    culture compile exactly the resource constants whose language the obligations above analyse, in the order IPv4, IPv6."""
    import json
    import os
    import subprocess
    VERIF = os.path.dirname(os.path.dirname(os.path.abspath(__file__)))
    name = 'wiring/extractors-compile-the-analysed-patterns'
    p = subprocess.run(['/venv/bin/python', os.path.join(VERIF, 'closed', 'sequence_config_wiring.py')], capture_output=True, text=True, timeout=300)
    try:
        r = json.loads(p.stdout)
    except Exception:
        return [dict(name=name, kind='closed', verdict='unknown', detail=(p.stdout + p.stderr)[-500:])]
    if r['checked'] == 0:
        return [dict(name=name, kind='closed', verdict='unknown', detail='no configuration class found')]
    if r['bad']:
        return [dict(name=name, kind='closed', verdict='sat', backend='closed-eval', replayed=True, witness=r['bad'][0], detail=f'{r["bad"][:4]}')]
    return [dict(name=name, kind='closed', verdict='unsat', backend='closed-eval', count=r['checked'],
                 detail=f'{r["checked"]} wiring facts: English and Chinese IP configurations, BaseIpExtractor pattern order, GUID extractor')]


sequence_config_wiring.props = ['C13']
CLOSED.append(sequence_config_wiring)
