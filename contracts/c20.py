"""C20 — yes/no answers: polarity tables, the span/selection glue of ChoiceExtractor.extract, the parser's score,
and regular-language obligations on the real TrueRegex / FalseRegex."""
from .common import *

CX = CH + 'choice/extractors.py::'
CP = CH + 'choice/parsers.py::'
CM = CH + 'choice/models.py::'
T, F = 'boolean-true', 'boolean-false'

_DATA = Rec(CX + 'ChoiceExtractDataResult', dict(source=Str(), score=Real(), other_matches=Const([])))
_ER = lambda **f: Rec(RT + 'extractor.py::ExtractResult',
                      dict(dict(start=Int(0), length=Int(1), text=Str(), type=Str(), data=_DATA, meta_data=Const(None)), **f))

CONTRACTS = [
    Contract('c20.choice_parser.parse', CP + 'ChoiceParser.parse', ['C20', 'C01'],
             params=dict(vt=Bool(), vf=Bool(),
                         self=Rec(CP + 'ChoiceParser', dict(config=Rec(CP + 'ChoiceParserConfiguration',
                                                                        dict(resolutions=Expr('{"boolean-true": vt, "boolean-false": vf}'))))),
                         ext_result=_ER()),
             ensures=[('value-is-the-table-entry-of-the-extracted-type',
                       'implies(ext_result.type == "boolean-true", result.value == vt) and '
                       'implies(ext_result.type == "boolean-false", result.value == vf)'),
                      ('score-lies-in-the-unit-interval', '0 <= result.data.score and result.data.score <= 1'),
                      ('span-and-text-copied', 'result.start == ext_result.start and result.length == ext_result.length and '
                                               'result.text == ext_result.text and result.type == ext_result.type')],
             note='for every extracted result, whatever score the extractor attached'),
    Contract('c20.boolean_parser.table', CP + 'BooleanParser.__init__', ['C20'],
             params=dict(self=Rec(CP + 'BooleanParser', {})),
             ensures=[('true-type-resolves-to-True-and-false-type-to-False',
                       f'self.config.resolutions["{T}"] == True and self.config.resolutions["{F}"] == False and '
                       'len(self.config.resolutions) == 2')]),
]

_CTOR = 'list(self.model_factory.model_factories.values())[0](opt)'
CONTRACTS += [
    Contract('c20.registration.english_boolean_model', CH + 'choice/recognizers_choice.py::ChoiceRecognizer.initialize_configuration', ['C20'],
             params=dict(opt=Int(), RES=Const(CH + 'resources/english_choice.py::EnglishChoice'), self=Rec(CH + 'choice/recognizers_choice.py::ChoiceRecognizer',
                                             dict(model_factory=Rec(RT + 'model.py::ModelFactory', dict(model_factories=Expr('{}')))))),
             ensures=[('one-model-registered-for-english', 'len(self.model_factory.model_factories) == 1 and '
                       'list(self.model_factory.model_factories.keys())[0].culture == "en-us" and '
                       'list(self.model_factory.model_factories.keys())[0].model_type == "BooleanModel"'),
                      ('only-the-top-match-is-reported-whatever-the-options', f'{_CTOR}.extractor.config.only_top_match == True'),
                      ('whole-expressions-only', f'{_CTOR}.extractor.config.allow_partial_match == False'),
                      ('true-pattern-is-the-resource-TrueRegex-and-yields-the-true-type',
                       f'[v for (p, v) in {_CTOR}.extractor.config.regexes_map.items() if p.pattern == repo_const(RES, "TrueRegex")] == ["{T}"]'),
                      ('false-pattern-is-the-resource-FalseRegex-and-yields-the-false-type',
                       f'[v for (p, v) in {_CTOR}.extractor.config.regexes_map.items() if p.pattern == repo_const(RES, "FalseRegex")] == ["{F}"]'),
                      ('nothing-else-in-the-pattern-map', f'len({_CTOR}.extractor.config.regexes_map) == 2'),
                      ('parser-table', f'{_CTOR}.parser.config.resolutions == {{"{T}": True, "{F}": False}}')],
             note='the constructor registered for (BooleanModel, en-us), applied to an arbitrary options value'),
]

TOKRX = '[^\\w\\d]'       # EnglishChoice.TokenizerRegex
_EXT = lambda **v: Rec(CX + 'ChoiceExtractor', dict(config=Config(values=dict(dict(token_regex=Const(TOKRX)), **v))))
CONTRACTS += [
    Contract('c20.env.is_emoji', RT + 'utilities.py::StringUtility.is_emoji', ['C20'], returns=Bool(),
             params=dict(letter=Str()), ensures=[('is-a-predicate-of-the-character', 'result == char_pred("isemoji", letter)')],
             assumed='the emoji package decides is_emoji; it is a function of the character'),
    Contract('c20.tokenize', CX + 'ChoiceExtractor.__tokenize', ['C20'], modular=['id:c20.env.is_emoji'],
             params=dict(self=_EXT(), source=Str()),
             regex_env={TOKRX: {'char_pred': 'issep'}},
             loops={0: LoopSpec(index='k', types={'tokens': Arr('str')}, ghost={'own': Arr('int')},
                                invariant=['0 <= k and k <= len(source)',
                                           'forall(lambda p: implies(char_pred("isemoji", source[p]), 0 <= own[p] and own[p] < len(tokens) and '
                                           'tokens[own[p]] == source[p]), 0, k)'])},
             ghost_after={'tokens.append(char': 'own = fill(own, k, k + 1, len(tokens) - 1)'},
             ensures=[('every-emoji-character-is-a-token-of-its-own',
                       'forall(lambda p: implies(char_pred("isemoji", source[p]), 0 <= own[p] and own[p] < len(result) and '
                       'result[own[p]] == source[p]), 0, len(source))')],
             native_ensures=['all((not char_pred("isemoji", source[p])) or (source[p] in result) for p in range(len(source)))'],
             note='for every string; which characters are emoji and which are separators are uninterpreted predicates; '
                  'grapheme.slice(s) is taken to return s'),
]


def _extract_setup(I, loc):
    """two configured patterns (their matches are environment values) with the two boolean types"""
    from pyvc import envmodel as E
    cfg = loc['self'].fields['config']
    cfg.values['regexes_map'] = {E.CompiledPattern('rxT', 'rxT'): T, E.CompiledPattern('rxF', 'rxF'): F}


_MT, _MF = 'env_matches("rxT")', 'env_matches("rxF")'
_IS_MATCH = lambda r: (f'(exists(lambda j: {r}.start == {_MT}[j].start() and {r}.length == {_MT}[j].end() - {_MT}[j].start() and '
                       f'{r}.type == "{T}", 0, len({_MT})) or '
                       f'exists(lambda j: {r}.start == {_MF}[j].start() and {r}.length == {_MF}[j].end() - {_MF}[j].start() and '
                       f'{r}.type == "{F}", 0, len({_MF})))')
CONTRACTS += [
    Contract('c20.env.remove_unicode_matches', RT + 'utilities.py::StringUtility.remove_unicode_matches', ['C20'], returns=Expr('string'),
             params=dict(string=Opaque()), ensures=[],
             assumed='the escape translation keeps the identity of the pattern (its language is checked by the closed '
                     'regular-language obligations on the translated text)'),
    Contract('c20.env.tokenize', CX + 'ChoiceExtractor.__tokenize', ['C20'], returns=Arr('str'),
             params=dict(self=Opaque(), source=Opaque()), ensures=[],
             assumed='abstracted in the extract contract: any token list (its own contract is c20.tokenize)'),
    Contract('c20.env.match_value', CX + 'ChoiceExtractor.match_value', ['C20'], returns=Real(),
             params=dict(self=Opaque(), source=Opaque(), match=Opaque(), start_pos=Opaque()), ensures=[],
             assumed='abstracted in the extract contract: any score'),
    Contract('c20.extract.top_match', CX + 'ChoiceExtractor.extract', ['C20', 'C01', 'C12'], setup=_extract_setup,
             modular=['id:c01.lower_keep_length', 'id:c20.env.remove_unicode_matches', 'id:c20.env.tokenize', 'id:c20.env.match_value'],
             params=dict(self=_EXT(only_top_match=Const(True)), source=Str()),
             regex_env={'rxT': {'count': 2}, 'rxF': {'count': 2}},
             loops={2: LoopSpec(invariant=['0 <= i'])},
             ensures=[('at-most-one-entity', 'len(result) <= 1'),
                      ('nothing-without-a-match', f'implies(len({_MT}) == 0 and len({_MF}) == 0, len(result) == 0)'),
                      ('nothing-for-blank-text', 'implies(source.strip() == "", len(result) == 0)'),
                      ('the-entity-is-one-of-the-matches-with-the-polarity-of-its-pattern',
                       f'implies(len(result) == 1, {_IS_MATCH("result[0]")})'),
                      ('span-inside-the-query-with-its-text',
                       'implies(len(result) == 1, result[0].start >= 0 and result[0].length >= 1 and '
                       'result[0].start + result[0].length <= len(source) and '
                       'result[0].text == source[result[0].start:result[0].start + result[0].length].strip())')],
             note='matches of the two patterns are environment values (R1 geometry, at most two per pattern); token lists and '
                  'scores arbitrary'),
]

_PDATA = Rec(CP + 'ChoiceParseDataResult', dict(score=Expr('pscore'), other_matches=Const([])))
_PR = Rec(RT + 'parser.py::ParseResult', dict(start=Expr('ps'), length=Int(1), text=Expr('ptext'), type=Str(), data=_PDATA, meta_data=Const(None),
                                              value=Expr('pval'), resolution_str=Const(None)))
CONTRACTS += [
    Contract('c20.boolean_model.parse', CM + 'ChoiceModel.parse', ['C20', 'C01'],
             params=dict(ps=Int(0), ptext=Str(), pval=Bool(), pscore=Real(0, 1),
                         self=Rec(CM + 'BooleanModel', dict(parser=Config(funcs=dict(parse=Returns(_PR))),
                                                            extractor=Config(funcs=dict(extract=Returns(ListOf(_ER(), 1)))))),
                         source=Str()),
             ensures=[('one-entity-per-extracted-result', 'len(result) == 1'),
                      ('polarity-and-score-are-those-of-the-parser',
                       'result[0].resolution["value"] == pval and result[0].resolution["score"] == pscore and '
                       '0 <= result[0].resolution["score"] and result[0].resolution["score"] <= 1'),
                      ('offsets-are-those-of-the-parser-result',
                       'result[0].start == ps and result[0].end == ps + len(ptext) - 1 and '
                       'result[0].text == ptext and result[0].type_name == "boolean"')],
             note='extractor and parser abstracted by their contracts; an extractor that raises is outside this contract '
                  '(parse_results would be unbound)'),
]

CONTRACTS += [
    Contract(f'c20.match_value.contiguous.{n}of3at{at}.bounded', CX + 'ChoiceExtractor.match_value', ['C20'], unroll=6,
             params=dict(s0=Str(), s1=Str(), s2=Str(), self=_EXT(max_distance=Const(2), allow_partial_match=Const(False)),
                         source=Expr('[s0, s1, s2]'), match=Expr(f'[s0, s1, s2][{at}:{at + n}]'), start_pos=Const(at)),
             ensures=[('a-contiguous-occurrence-scores-above-zero-and-at-most-one', 'result > 0 and result <= 1')],
             bounded='three source tokens; the expression is the run of %d token(s) starting at token %d' % (n, at),
             note='tokens symbolic (all equality patterns)')
    for n, at in ((1, 0), (1, 1), (1, 2), (2, 0), (2, 1), (3, 0))
]


def choice_language_obligations(tier, seed):
    """Closed obligations on the real TrueRegex / FalseRegex constants as translated by the real remove_unicode_matches
    (closed/choice_language.py): polarity-disjoint and no-blank-edges by a product construction for all strings,
    lower-case literals syntactically, the emoji escapes of the resource by membership, and the enumerated alternatives
    end-to-end on the real recogniser."""
    import json
    import os
    import subprocess
    VERIF = os.path.dirname(os.path.dirname(os.path.abspath(__file__)))
    p = subprocess.run(['/venv/bin/python', '-W', 'ignore', os.path.join(VERIF, 'closed', 'choice_language.py')],
                       capture_output=True, text=True, timeout=600)
    try:
        return json.loads(p.stdout)
    except Exception:
        return [dict(name='relang/choice-patterns', kind='closed', verdict='unknown', detail=(p.stdout + p.stderr)[-600:])]


choice_language_obligations.props = ['C20']
CLOSED = [choice_language_obligations]
