"""C16 — tokenizers and the dictionary matcher."""
from .common import *

M = RT + 'matcher/'
TOKEN = M + 'token.py::Token'
TOKLIST = RecList({'__start': 'int', '__length': 'int', '__text': 'str'}, cls=TOKEN)

_WF = ('forall(lambda a: tokens[a].start >= 0 and tokens[a].length >= 1 and '
       'tokens[a].start + tokens[a].length <= (token_start if in_token else i) and '
       'tokens[a].text == input[tokens[a].start:tokens[a].start + tokens[a].length], 0, len(tokens))')

SIMPLE_INV = [
    '0 <= i and i <= len(input) and len(chars) == len(input)',
    'implies(in_token, 0 <= token_start and token_start < i)',
    _WF,
    'forall(lambda a, b: implies(a < b, tokens[a].start + tokens[a].length <= tokens[b].start), 0, len(tokens), 0, len(tokens))',
    # each token is a single separator character or a maximal run of word characters
    'forall(lambda a: (tokens[a].length == 1 and sep_char(input[tokens[a].start])) or '
    '((tokens[a].start == 0 or not material_char(input[tokens[a].start - 1])) and '
    'not material_char(input[tokens[a].start + tokens[a].length])), 0, len(tokens))',
    'forall(lambda a, p: implies(tokens[a].start <= p and p < tokens[a].start + tokens[a].length and '
    'not (tokens[a].length == 1 and sep_char(input[tokens[a].start])), material_char(input[p])), 0, len(tokens), 0, len(input))',
    # every non-space character before the current position is covered (ghost witness own[p]: index of its token)
    'forall(lambda p: implies(not input[p].isspace(), 0 <= own[p] and own[p] < len(tokens) and '
    'tokens[own[p]].start <= p and p < tokens[own[p]].start + tokens[own[p]].length), '
    '0, (token_start if in_token else i))',
    'implies(in_token, forall(lambda p: material_char(input[p]), token_start, i) and '
    '(token_start == 0 or not material_char(input[token_start - 1])))',
    'implies(not in_token and i >= 1, not material_char(input[i - 1]))',
]

TOK_POST = [
    ('slices-in-bounds-with-their-text',
     'forall(lambda a: result[a].start >= 0 and result[a].length >= 1 and result[a].start + result[a].length <= len(input) and '
     'result[a].text == input[result[a].start:result[a].start + result[a].length], 0, len(result))'),
    ('in-order-without-overlap',
     'forall(lambda a, b: implies(a < b, result[a].start + result[a].length <= result[b].start), 0, len(result), 0, len(result))'),
    ('no-token-contains-a-space',
     'forall(lambda a, p: implies(result[a].start <= p and p < result[a].start + result[a].length, not input[p].isspace()), '
     '0, len(result), 0, len(input))'),
    ('every-non-space-character-is-covered',     # own[p]: ghost witness, the index of the token that covers position p
     'forall(lambda p: implies(not input[p].isspace(), 0 <= own[p] and own[p] < len(result) and '
     'result[own[p]].start <= p and p < result[own[p]].start + result[own[p]].length), 0, len(input))'),
    ('tokens-are-single-separators-or-maximal-words',
     'forall(lambda a: (result[a].length == 1 and sep_char(input[result[a].start])) or '
     '((result[a].start == 0 or not material_char(input[result[a].start - 1])) and '
     '(result[a].start + result[a].length == len(input) or not material_char(input[result[a].start + result[a].length]))), '
     '0, len(result))'),
    ('word-tokens-consist-of-word-characters-only',
     'forall(lambda a, p: implies(result[a].start <= p and p < result[a].start + result[a].length and '
     'not (result[a].length == 1 and sep_char(input[result[a].start])), material_char(input[p])), 0, len(result), 0, len(input))'),
]

CONTRACTS = [
    Contract('c16.simple_tokenizer', M + 'simple_tokenizer.py::SimpleTokenizer.tokenize', ['C16'], returns=TOKLIST,
             params=dict(self=Rec(M + 'simple_tokenizer.py::SimpleTokenizer', {}), input=Str()),
             requires=['len(input) >= 1'],
             loops={0: LoopSpec(invariant=SIMPLE_INV, types={'tokens': TOKLIST}, ghost={'own': Arr('int')})},
             ghost_after={'tokens.append(': 'own = fill(own, tokens[len(tokens) - 1].start, tokens[len(tokens) - 1].start + tokens[len(tokens) - 1].length, len(tokens) - 1)'},
             native_ensures=['all(input[p].isspace() or any(t.start <= p and p < t.start + t.length for t in result) for p in range(len(input)))'],
             ensures=TOK_POST),
]
CONTRACTS[-1].repair_strings = True

TRIE = M + 'trie_tree.py::TrieTree'


def _trie_scenario(I, loc):
    """A trie built by the real insert() from two phrases (1-2 symbolic tokens each, symbolic ids)."""
    pass


CONTRACTS += [
    Contract('c16.trie.insert_then_find.bounded', TRIE + '.find', ['C16'], max_paths=6000,
             bounded='phrases [a1,a2] (two ids) and [b1], query of three tokens; token values and ids symbolic',
             params=dict(a1=Str(3), a2=Str(3), b1=Str(3), q0=Str(3), q1=Str(3), q2=Str(3), ida=Str(3), idb=Str(3), idc=Str(3),
                         self=Expr('build_trie([[a1, a2], [b1], [a1, a2]], [ida, idb, idc])'),
                         query_text=Expr('[q0, q1, q2]')),
             requires=['ida != "" and idb != "" and idc != ""'],
             ensures=[('exactly-the-occurrences-in-order-with-all-their-ids',
                       'matches_equal(result, expected_matches([[a1, a2], [b1], [a1, a2]], [ida, idb, idc], [q0, q1, q2]))')],
             note='BOUNDED stand-in: phrases [a1,a2] (inserted twice with two ids) and [b1], query of three tokens; token values and ids '
                  'are symbolic (all equality patterns covered), shapes are fixed'),
]

NU_INV = [
    '0 <= i and i <= len(input) and len(chars) == len(input)',
    'implies(in_token, 0 <= token_start and token_start < i)',
    _WF,
    'forall(lambda a, b: implies(a < b, tokens[a].start + tokens[a].length <= tokens[b].start), 0, len(tokens), 0, len(tokens))',
    'forall(lambda a, p: implies(tokens[a].start <= p and p < tokens[a].start + tokens[a].length, not input[p].isspace()), '
    '0, len(tokens), 0, len(input))',
    'forall(lambda a, p: implies(tokens[a].start <= p and p < tokens[a].start + tokens[a].length and '
    'not (tokens[a].length == 1 and nu_sep_char(input[tokens[a].start])), nu_material_char(input[p])), 0, len(tokens), 0, len(input))',
    'forall(lambda p: implies(not input[p].isspace(), 0 <= own[p] and own[p] < len(tokens) and '
    'tokens[own[p]].start <= p and p < tokens[own[p]].start + tokens[own[p]].length), '
    '0, (token_start if in_token else i))',
    'implies(in_token, forall(lambda p: nu_material_char(input[p]), token_start, i))',
]
NU_POST = [TOK_POST[0], TOK_POST[1], TOK_POST[2], TOK_POST[3],
           ('word-tokens-consist-of-word-characters-only',
            'forall(lambda a, p: implies(result[a].start <= p and p < result[a].start + result[a].length and '
            'not (result[a].length == 1 and nu_sep_char(input[result[a].start])), nu_material_char(input[p])), 0, len(result), 0, len(input))')]

CONTRACTS += [
    Contract('c16.number_with_unit_tokenizer', M + 'number_with_unit_tokenizer.py::NumberWithUnitTokenizer.tokenize', ['C16', 'C05'],
             params=dict(self=Rec(M + 'number_with_unit_tokenizer.py::NumberWithUnitTokenizer', init={}), input=Str()),
             requires=['len(input) >= 1'],
             loops={0: LoopSpec(invariant=NU_INV, types={'tokens': TOKLIST}, ghost={'own': Arr('int')})},
             ghost_after={'tokens.append(': 'own = fill(own, tokens[len(tokens) - 1].start, tokens[len(tokens) - 1].start + tokens[len(tokens) - 1].length, len(tokens) - 1)'},
             native_ensures=['all(input[p].isspace() or any(t.start <= p and p < t.start + t.length for t in result) for p in range(len(input)))'],
             ensures=NU_POST),
]
CONTRACTS[-1].repair_strings = True

MRES = RecList({'__length': 'int', '__start': 'int', '__canonical_values': 'any', '__text': 'str'}, cls=M + 'match_result.py::MatchResult')


def _matcher_setup(I, loc):
    """The token-level matcher is abstracted by its contract: every reported match lies inside the token list and has
    at least one token (the latter is the precondition 'no phrase tokenises to the empty list', see DESIGN C16)."""
    import z3
    from pyvc import envmodel as E, sorts
    from pyvc.values import Sym, INT

    def find(I2, a, kw):
        q = a[0]
        r = sorts.build(I2, MRES, 'token_matches')
        from pyvc import lib as _lib
        n = I2.term(_lib.length(I2, q))
        k = z3.Int(I2.p.fresh_name('q_m'))
        st, ln = r.fields['__start'][1], r.fields['__length'][1]
        I2.p.assume(z3.ForAll([k], z3.Implies(z3.And(k >= 0, k < I2.term(r.n)),
                                              z3.And(z3.Select(st, k) >= 0, z3.Select(ln, k) >= 1,
                                                     z3.Select(st, k) + z3.Select(ln, k) <= n))))
        return r
    m = E.EnvConfig('matcher', funcs={'find': E.EnvFunc('find', find)})
    loc['self'].fields['__matcher'] = m


CONTRACTS += [
    Contract('c16.string_matcher.find', M + 'string_matcher.py::StringMatcher.find', ['C16', 'C05'], setup=_matcher_setup,
             max_recursion=2, modular=[M + 'simple_tokenizer.py::SimpleTokenizer.tokenize'],
             params=dict(self=Rec(M + 'string_matcher.py::StringMatcher',
                                  {'__tokenizer': Rec(M + 'simple_tokenizer.py::SimpleTokenizer', {})}),
                         tokenized_query=Str()),
             requires=['len(tokenized_query) >= 1'],
             loops={0: LoopSpec(index='k', types={'result': MRES},
                                invariant=['0 <= k and len(result) == k',
                                           'forall(lambda a: result[a].start >= 0 and result[a].length >= 1 and '
                                           'result[a].start + result[a].length <= len(tokenized_query) and '
                                           'result[a].text == tokenized_query[result[a].start:result[a].start + result[a].length], '
                                           '0, len(result))'])},
             ensures=[('offsets-length-and-text-are-those-of-the-matched-token-run',
                       'forall(lambda a: result[a].start >= 0 and result[a].length >= 1 and '
                       'result[a].start + result[a].length <= len(tokenized_query) and '
                       'result[a].text == tokenized_query[result[a].start:result[a].start + result[a].length], 0, len(result))')],
             note='token-level matcher abstracted by its contract (matches inside the token list, at least one token long)'),
]

CONTRACTS += [
    Contract('c16.matcher.space_only_phrase', M + 'string_matcher.py::StringMatcher.find', ['C16'], max_recursion=2, unroll=8,
             params=dict(self=Expr('build_string_matcher([" "])'), tokenized_query=Const('a b')),
             ensures=[('no-extras', 'len(result) == 0')],
             note='known finding KF-C16-1 (phrase consisting of spaces)'),
    Contract('c16.matcher.end_to_end.bounded', M + 'string_matcher.py::StringMatcher.find', ['C16'], max_recursion=2, unroll=8,
             bounded='three phrases, four concrete queries',
             params=dict(self=Expr('build_string_matcher(["us $", "$", "kg"])'), k=Int(0, 3),
                         tokenized_query=Expr('["5 us $ and 3kg", "us$ 4", "$$", "kg kg us"][k]')),
             ensures=[('matches-of-the-listed-phrases-at-token-boundaries',
                       'match_spans(result) == [[(2, 4), (5, 1)], [(0, 3), (2, 1)], [(0, 1), (1, 1)], [(0, 2), (3, 2)]][k]')],
             note='BOUNDED stand-in (closed evaluation by the engine of the real init/insert/tokenize/find code on four queries)'),
    Contract('c16.matcher.dict_form.bounded', M + 'string_matcher.py::StringMatcher.find', ['C16'], max_recursion=2, unroll=8,
             bounded='two ids, three phrases of which one is listed under both ids, one concrete query',
             params=dict(self=Expr('build_string_matcher({"UTC-06:00": ["cst"], "UTC+08:00": ["china time", "cst"]})'),
                         tokenized_query=Const('at 5 cst, china time')),
             ensures=[('a-phrase-listed-under-two-ids-reports-both',
                       'match_spans(result) == [(5, 3), (10, 10)] and match_ids(result) == [["UTC+08:00", "UTC-06:00"], ["UTC+08:00"]]')],
             note='BOUNDED stand-in: the {id: [phrases]} form of init, closed evaluation by the engine of the real init/insert/find code'),
]
