"""C16 — tokenizers and the dictionary matcher."""
from .common import *

M = RT + 'matcher/'
TOKEN = M + 'token.py::Token'
TOKLIST = RecList({'__start': 'int', '__length': 'int', '__text': 'str'}, cls=TOKEN)

_WF = ('forall(lambda a: tokens[a].start >= 0 and tokens[a].length >= 1 and '
       'tokens[a].start + tokens[a].length <= (token_start if in_token else i) and '
       'tokens[a].text == input[tokens[a].start:tokens[a].start + tokens[a].length], 0, len(tokens))')

SIMPLE_INV = [
    '0 <= i and i <= len(input) and len(chars) == len(input)',
    'implies(in_token, 0 <= token_start and token_start < i)',
    _WF,
    'forall(lambda a, b: implies(a < b, tokens[a].start + tokens[a].length <= tokens[b].start), 0, len(tokens), 0, len(tokens))',
    # each token is a single separator character or a maximal run of word characters
    'forall(lambda a: (tokens[a].length == 1 and sep_char(input[tokens[a].start])) or '
    '((tokens[a].start == 0 or not material_char(input[tokens[a].start - 1])) and '
    'not material_char(input[tokens[a].start + tokens[a].length])), 0, len(tokens))',
    'forall(lambda a, p: implies(tokens[a].start <= p and p < tokens[a].start + tokens[a].length and '
    'not (tokens[a].length == 1 and sep_char(input[tokens[a].start])), material_char(input[p])), 0, len(tokens), 0, len(input))',
    # every non-space character before the current position is covered (ghost witness own[p]: index of its token)
    'forall(lambda p: implies(not input[p].isspace(), 0 <= own[p] and own[p] < len(tokens) and '
    'tokens[own[p]].start <= p and p < tokens[own[p]].start + tokens[own[p]].length), '
    '0, (token_start if in_token else i))',
    'implies(in_token, forall(lambda p: material_char(input[p]), token_start, i) and '
    '(token_start == 0 or not material_char(input[token_start - 1])))',
    'implies(not in_token and i >= 1, not material_char(input[i - 1]))',
]

TOK_POST = [
    ('slices-in-bounds-with-their-text',
     'forall(lambda a: result[a].start >= 0 and result[a].length >= 1 and result[a].start + result[a].length <= len(input) and '
     'result[a].text == input[result[a].start:result[a].start + result[a].length], 0, len(result))'),
    ('in-order-without-overlap',
     'forall(lambda a, b: implies(a < b, result[a].start + result[a].length <= result[b].start), 0, len(result), 0, len(result))'),
    ('no-token-contains-a-space',
     'forall(lambda a, p: implies(result[a].start <= p and p < result[a].start + result[a].length, not input[p].isspace()), '
     '0, len(result), 0, len(input))'),
    ('every-non-space-character-is-covered',
     'forall(lambda p: implies(not input[p].isspace(), '
     'exists(lambda a: result[a].start <= p and p < result[a].start + result[a].length, 0, len(result))), 0, len(input))'),
    ('tokens-are-single-separators-or-maximal-words',
     'forall(lambda a: (result[a].length == 1 and sep_char(input[result[a].start])) or '
     '((result[a].start == 0 or not material_char(input[result[a].start - 1])) and '
     '(result[a].start + result[a].length == len(input) or not material_char(input[result[a].start + result[a].length]))), '
     '0, len(result))'),
    ('word-tokens-consist-of-word-characters-only',
     'forall(lambda a, p: implies(result[a].start <= p and p < result[a].start + result[a].length and '
     'not (result[a].length == 1 and sep_char(input[result[a].start])), material_char(input[p])), 0, len(result), 0, len(input))'),
]

CONTRACTS = [
    Contract('c16.simple_tokenizer', M + 'simple_tokenizer.py::SimpleTokenizer.tokenize', ['C16'],
             params=dict(self=Rec(M + 'simple_tokenizer.py::SimpleTokenizer', {}), input=Str()),
             requires=['len(input) >= 1'],
             loops={0: LoopSpec(invariant=SIMPLE_INV, types={'tokens': TOKLIST}, ghost={'own': Arr('int')})},
             ghost_after={'tokens.append(': 'own = fill(own, tokens[len(tokens) - 1].start, tokens[len(tokens) - 1].start + tokens[len(tokens) - 1].length, len(tokens) - 1)'},
             ensures=TOK_POST),
]
CONTRACTS[-1].repair_strings = True

TRIE = M + 'trie_tree.py::TrieTree'


def _trie_scenario(I, loc):
    """A trie built by the real insert() from two phrases (1-2 symbolic tokens each, symbolic ids)."""
    pass


CONTRACTS += [
    Contract('c16.trie.insert_then_find.bounded', TRIE + '.find', ['C16'], max_paths=6000,
             params=dict(a1=Str(3), a2=Str(3), b1=Str(3), q0=Str(3), q1=Str(3), q2=Str(3), ida=Str(3), idb=Str(3), idc=Str(3),
                         self=Expr('build_trie([[a1, a2], [b1], [a1, a2]], [ida, idb, idc])'),
                         query_text=Expr('[q0, q1, q2]')),
             requires=['ida != "" and idb != "" and idc != ""'],
             ensures=[('exactly-the-occurrences-in-order-with-all-their-ids',
                       'matches_equal(result, expected_matches([[a1, a2], [b1], [a1, a2]], [ida, idb, idc], [q0, q1, q2]))')],
             note='BOUNDED stand-in: phrases [a1,a2] (inserted twice with two ids) and [b1], query of three tokens; token values and ids '
                  'are symbolic (all equality patterns covered), shapes are fixed'),
]
