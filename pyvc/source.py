"""Locating and indexing the *real* source under /repo/Python/libraries.

Every run re-reads the files from the working tree; nothing is cached across runs.  The verified
text is the AST of the function as it is in the repository at the time of the check.
"""
import ast
import hashlib
import os

REPO = os.environ.get('VERIF_REPO', '/repo')
LIBS = os.path.join(REPO, 'Python', 'libraries')

PACKAGE_DIRS = {
    'recognizers_text': 'recognizers-text',
    'recognizers_number': 'recognizers-number',
    'recognizers_number_with_unit': 'recognizers-number-with-unit',
    'recognizers_date_time': 'recognizers-date-time',
    'recognizers_sequence': 'recognizers-sequence',
    'recognizers_choice': 'recognizers-choice',
    'datatypes_timex_expression': 'datatypes-timex-expression',
    'recognizers_suite': 'recognizers-suite',
}


class FuncInfo:
    def __init__(self, node, module, cls=None):
        self.node = node
        self.name = node.name
        self.module = module
        self.cls = cls
        self.kind = 'function'       # function | staticmethod | classmethod | property | setter
        self.decorators = []
        for d in node.decorator_list:
            if isinstance(d, ast.Name):
                self.decorators.append(d.id)
                if d.id in ('staticmethod', 'classmethod', 'property'):
                    self.kind = d.id
            elif isinstance(d, ast.Attribute):
                self.decorators.append(d.attr)
                if d.attr == 'setter':
                    self.kind = 'setter'
            elif isinstance(d, ast.Call) and isinstance(d.func, ast.Name):
                self.decorators.append(d.func.id)

    @property
    def qualname(self):
        return (self.cls.name + '.' if self.cls else '') + self.name

    @property
    def ident(self):
        return f'{self.module.relpath}::{self.qualname}'

    def source_text(self):
        return ast.get_source_segment(self.module.text, self.node) or ''

    def sha(self):
        return hashlib.sha256(self.source_text().encode()).hexdigest()[:16]

    def __repr__(self):
        return f'<Func {self.ident}>'


class ClassInfo:
    def __init__(self, node, module):
        self.node = node
        self.name = node.name
        self.module = module
        self.methods = {}      # name -> FuncInfo (plain/static/class methods)
        self.getters = {}      # property getters
        self.setters = {}
        self.assigns = {}      # class-level constant name -> ast expr
        self.base_exprs = node.bases
        self.overloads = {}    # name -> [FuncInfo] for multipledispatch @dispatch(...) overloads
        for st in node.body:
            if isinstance(st, (ast.FunctionDef,)):
                fi = FuncInfo(st, module, self)
                if 'dispatch' in fi.decorators:
                    self.overloads.setdefault(fi.name, []).append(fi)
                if fi.kind == 'property':
                    self.getters[fi.name] = fi
                elif fi.kind == 'setter':
                    self.setters[fi.name] = fi
                else:
                    self.methods[fi.name] = fi
            elif isinstance(st, ast.Assign):
                for t in st.targets:
                    if isinstance(t, ast.Name):
                        self.assigns[t.id] = st.value
            elif isinstance(st, ast.AnnAssign) and isinstance(st.target, ast.Name) and st.value is not None:
                self.assigns[st.target.id] = st.value

    def __repr__(self):
        return f'<Class {self.module.relpath}::{self.name}>'


class ModuleInfo:
    def __init__(self, path, dotted, repo):
        self.path = path
        self.dotted = dotted
        self.repo = repo
        self.relpath = os.path.relpath(path, REPO)
        with open(path, encoding='utf-8') as f:
            self.text = f.read()
        self.tree = ast.parse(self.text, filename=path)
        self.classes = {}
        self.functions = {}
        self.assigns = {}
        self.imports = {}     # local name -> (module dotted, attr or None)
        self.star_imports = []
        self._scan(self.tree.body)

    def _scan(self, body):
        for st in body:
            if isinstance(st, ast.ClassDef):
                self.classes[st.name] = ClassInfo(st, self)
            elif isinstance(st, ast.FunctionDef):
                self.functions[st.name] = FuncInfo(st, self)
            elif isinstance(st, ast.Assign):
                for t in st.targets:
                    if isinstance(t, ast.Name):
                        self.assigns[t.id] = st.value
            elif isinstance(st, ast.AnnAssign) and isinstance(st.target, ast.Name) and st.value is not None:
                self.assigns[st.target.id] = st.value
            elif isinstance(st, ast.ImportFrom):
                mod = self._resolve_relative(st.module, st.level)
                for a in st.names:
                    if a.name == '*':
                        self.star_imports.append(mod)
                    else:
                        self.imports[a.asname or a.name] = (mod, a.name)
            elif isinstance(st, ast.Import):
                for a in st.names:
                    self.imports[(a.asname or a.name).split('.')[0]] = (a.name if a.asname else a.name.split('.')[0], None)
            elif isinstance(st, (ast.If, ast.Try)):
                self._scan(st.body)

    def _resolve_relative(self, module, level):
        if not level:
            return module
        parts = self.dotted.split('.')
        is_pkg = os.path.basename(self.path) == '__init__.py'
        base = parts if is_pkg else parts[:-1]
        if level > 1:
            base = base[:len(base) - (level - 1)]
        return '.'.join(base + ([module] if module else []))


class Repo:
    def __init__(self):
        self.modules = {}

    def module_path(self, dotted):
        top = dotted.split('.')[0]
        if top not in PACKAGE_DIRS:
            return None
        base = os.path.join(LIBS, PACKAGE_DIRS[top], *dotted.split('.'))
        if os.path.isfile(base + '.py'):
            return base + '.py'
        if os.path.isfile(os.path.join(base, '__init__.py')):
            return os.path.join(base, '__init__.py')
        return None

    def module(self, dotted):
        if dotted in self.modules:
            return self.modules[dotted]
        p = self.module_path(dotted)
        if p is None:
            self.modules[dotted] = None
            return None
        m = ModuleInfo(p, dotted, self)
        self.modules[dotted] = m
        return m

    def module_by_relpath(self, relpath):
        """relpath relative to REPO, e.g. Python/libraries/recognizers-text/recognizers_text/culture.py"""
        p = os.path.join(REPO, relpath)
        rel = os.path.relpath(p, LIBS).split(os.sep)
        dotted = '.'.join(rel[1:])[:-3]
        if dotted.endswith('.__init__'):
            dotted = dotted[:-9]
        return self.module(dotted)

    def lookup(self, dotted, name, _seen=None):
        """Resolve `name` exported by module `dotted` to ClassInfo/FuncInfo/('assign', module, expr) or None."""
        _seen = _seen or set()
        if (dotted, name) in _seen:
            return None
        _seen.add((dotted, name))
        m = self.module(dotted)
        if m is None:
            return None
        if name in m.classes:
            return m.classes[name]
        if name in m.functions:
            return m.functions[name]
        if name in m.assigns:
            return ('assign', m, m.assigns[name])
        if name in m.imports:
            mod, attr = m.imports[name]
            if attr is None:
                return ('module', mod)
            r = self.lookup(mod, attr, _seen)
            if r is not None:
                return r
            sub = self.module(mod + '.' + attr) if mod else None
            if sub is not None:
                return ('module', mod + '.' + attr)
            return ('external', mod, attr)
        for sm in m.star_imports:
            r = self.lookup(sm, name, _seen)
            if r is not None and not (isinstance(r, tuple) and r[0] == 'external'):
                return r
        return None

    def find(self, ident):
        """ident: 'relpath::Class.method' or 'relpath::function'"""
        relpath, qual = ident.split('::')
        m = self.module_by_relpath(relpath)
        if m is None:
            raise KeyError(f'module not found: {relpath}')
        parts = qual.split('.')
        if len(parts) == 1:
            if parts[0] in m.functions:
                return m.functions[parts[0]]
            if parts[0] in m.classes:
                return m.classes[parts[0]]
            raise KeyError(f'function not found: {ident}')
        c = m.classes.get(parts[0])
        if c is None:
            raise KeyError(f'class not found: {ident}')
        name = parts[1]
        if name.endswith('.setter'):
            name = name[:-7]
            return c.setters[name]
        for d in (c.methods, c.getters, c.setters):
            if name in d:
                return d[name]
        raise KeyError(f'method not found: {ident}')

    def mro(self, cls):
        """Linearised single-inheritance chain (repo classes only)."""
        out = [cls]
        seen = {id(cls)}
        i = 0
        while i < len(out):
            c = out[i]
            i += 1
            for b in c.base_exprs:
                if isinstance(b, ast.Subscript):      # Generic[...] style base: Recognizer[ChoiceOptions]
                    b = b.value
                bname = b.id if isinstance(b, ast.Name) else (b.attr if isinstance(b, ast.Attribute) else None)
                if bname is None:
                    continue
                r = c.module.classes.get(bname) or self.lookup(c.module.dotted, bname)
                if isinstance(r, ClassInfo) and id(r) not in seen:
                    seen.add(id(r))
                    out.append(r)
        return out

    def find_method(self, cls, name, kinds=('methods',)):
        for c in self.mro(cls):
            for k in kinds:
                d = getattr(c, k)
                if name in d:
                    return d[name]
        return None

    def find_class_assign(self, cls, name):
        for c in self.mro(cls):
            if name in c.assigns:
                return c, c.assigns[name]
        return None
