"""Exact shortcuts on structured strings (pieces: literal | Digits | OpaqueStr).  Every function returns
NOTFOUND when the structure does not decide the operation; callers then fall back to the SMT string theory.
Each shortcut is a string identity that holds because a Digits piece is non-empty and consists of [0-9] only."""
import z3

from .values import *


class _NF:
    pass


NOTFOUND = _NF()


def _parts(v):
    from .lib import parts_of
    if isinstance(v, str):
        return [v] if v else []
    if isinstance(v, Sym) and v.kind == STR and v.parts is not None:
        return list(v.parts)
    return None


def _is_open(p):
    """piece of unknown content (an alpha piece is known to contain letters only)"""
    return isinstance(p, OpaqueStr) and not p.alpha


def _has_digit(s):
    return any(c in '0123456789' for c in s)


def startswith(v, lit):
    ps = _parts(v)
    if ps is None or not isinstance(lit, str):
        return NOTFOUND
    if lit == '':
        return True
    if not ps:
        return False
    p0 = ps[0]
    if isinstance(p0, str):
        if len(p0) >= len(lit):
            return p0.startswith(lit)
        if not lit.startswith(p0):
            return False
        return NOTFOUND
    if isinstance(p0, Digits):
        if lit[0] not in '0123456789':
            return False
    return NOTFOUND


def endswith(v, lit):
    ps = _parts(v)
    if ps is None or not isinstance(lit, str):
        return NOTFOUND
    if lit == '':
        return True
    if not ps:
        return False
    p = ps[-1]
    if isinstance(p, str):
        if len(p) >= len(lit):
            return p.endswith(lit)
        if not lit.endswith(p):
            return False
        return NOTFOUND
    if isinstance(p, Digits):
        if lit[-1] not in '0123456789':
            return False
    return NOTFOUND


def drop_prefix(v, k):
    """v[k:] for a concrete k >= 0 when the first k characters are literal"""
    from .lib import str_from_parts
    ps = _parts(v)
    if ps is None or not isinstance(k, int) or k < 0:
        return NOTFOUND
    if k == 0:
        return v
    if ps and isinstance(ps[0], str) and len(ps[0]) >= k:
        return str_from_parts([ps[0][k:]] + ps[1:])
    return NOTFOUND


def drop_suffix_to(v, k):
    """v[:len-k] for concrete k when the last k characters are literal"""
    from .lib import str_from_parts
    ps = _parts(v)
    if ps is None:
        return NOTFOUND
    if k == 0:
        return v
    if ps and isinstance(ps[-1], str) and len(ps[-1]) >= k:
        return str_from_parts(ps[:-1] + [ps[-1][:len(ps[-1]) - k]])
    return NOTFOUND


def _piece_len(p):
    if isinstance(p, str):
        return len(p)
    if isinstance(p, Digits) and p.single:
        return 1
    return None


def slice_fixed(v, lo, hi):
    """v[lo:hi] for concrete 0 <= lo <= hi when every piece up to position hi has a known length (literals and
    single-character pieces); the pieces after hi may be anything"""
    from .lib import str_from_parts
    ps = _parts(v)
    if ps is None or not isinstance(lo, int) or not isinstance(hi, int) or lo < 0 or hi < lo:
        return NOTFOUND
    out = []
    pos = 0
    for p in ps:
        if pos >= hi:
            break
        n = _piece_len(p)
        if n is None:
            return NOTFOUND
        a, b = max(lo, pos), min(hi, pos + n)
        if a < b:
            if isinstance(p, str):
                out.append(p[a - pos:b - pos])
            else:
                out.append(p)
        pos += n
    if pos < hi:
        return NOTFOUND       # the string may be shorter than hi
    return str_from_parts(out) if out else ''


def drop_fixed(v, k):
    """v[k:] for a concrete k >= 0 when the pieces covering the first k characters have known lengths"""
    from .lib import str_from_parts
    ps = _parts(v)
    if ps is None or not isinstance(k, int) or k < 0:
        return NOTFOUND
    pos = 0
    for i, p in enumerate(ps):
        if pos == k:
            return str_from_parts(list(ps[i:])) if ps[i:] else ''
        n = _piece_len(p)
        if n is None:
            return NOTFOUND
        if pos + n > k:
            if isinstance(p, str):
                return str_from_parts([p[k - pos:]] + list(ps[i + 1:]))
            return NOTFOUND
        pos += n
    return '' if pos == k else NOTFOUND


def find_stripped_self(v, needle):
    """v.find(needle) when needle is v with some leading WHITE SPACE removed (the shape of s.index(s.strip()) /
    s.index(s.lstrip())): the pieces of needle are the tail pieces of v, the characters dropped in front are blanks and
    needle starts with a non-blank character, so the first occurrence is exactly where the dropped prefix ends"""
    ph, pn = _parts(v), _parts(needle)
    if ph is None or pn is None or not pn or not ph:
        return NOTFOUND
    first = pn[0]
    if isinstance(first, str):
        if not first or first[0].isspace():
            return NOTFOUND
    elif not (isinstance(first, Digits) and not any(c.isspace() for c in first.alphabet)):
        return NOTFOUND
    # the haystack may continue after the needle (needle right-stripped as well): compare the needle against a window
    for i in range(len(ph)):
        h = ph[i]
        dropped = ph[:i]
        if not all(isinstance(d, str) and d.isspace() for d in dropped):
            break
        k = sum(len(d) for d in dropped)
        if isinstance(first, str) and isinstance(h, str):
            # the first needle literal is the haystack literal without its leading blanks
            lead = len(h) - len(h.lstrip())
            if h[lead:].startswith(first) and _same_tail(ph[i + 1:], pn[1:], h[lead:], first):
                return k + lead
        elif h is first and _same_tail(ph[i + 1:], pn[1:], None, None):
            return k
    return NOTFOUND


def _same_tail(th, tn, h_lit, n_lit):
    """the needle's remaining pieces are a prefix of the haystack's remaining pieces (identical piece objects / equal
    literals; a last needle literal may be a prefix of the haystack literal)"""
    if h_lit is not None and h_lit != n_lit and tn:
        return False
    if len(tn) > len(th):
        return False
    for j, pn_ in enumerate(tn):
        ph_ = th[j]
        if isinstance(pn_, str) and isinstance(ph_, str):
            if pn_ == ph_ or (j == len(tn) - 1 and ph_.startswith(pn_)):
                continue
            return False
        if pn_ is not ph_:
            return False
    return True


def contains(v, lit):
    ps = _parts(v)
    if ps is None or not isinstance(lit, str) or lit == '':
        return NOTFOUND
    if any(_is_open(p) for p in ps):
        if any(isinstance(p, str) and lit in p for p in ps):
            return True
        return NOTFOUND
    if any(isinstance(p, str) and lit in p for p in ps):
        return True
    has_alpha = any(isinstance(p, OpaqueStr) for p in ps)
    if len(lit) == 1 and lit not in '0123456789' and not (has_alpha and lit.isalpha()):
        return False
    if has_alpha:
        return NOTFOUND
    if not _has_digit(lit):
        # a non-digit pattern can only occur inside one literal piece or across adjacent literals (already merged)
        return False
    return NOTFOUND


def split(I, v, sep):
    """exact split on a literal separator that contains a non-digit character, when no piece is opaque"""
    from .lib import str_from_parts
    ps = _parts(v)
    if ps is None or not isinstance(sep, str) or sep == '' or all(c in '0123456789' for c in sep):
        return NOTFOUND
    if any(_is_open(p) for p in ps):
        return NOTFOUND
    if len(sep) != 1 or sep.isalpha():
        return NOTFOUND
    out = [[]]
    for p in ps:
        if isinstance(p, str):
            segs = p.split(sep)
            out[-1].append(segs[0])
            for sg in segs[1:]:
                out.append([sg])
        else:
            out[-1].append(p)
    return [str_from_parts(x) for x in out]


def find(I, v, lit):
    """index of the first occurrence of a single non-digit character"""
    ps = _parts(v)
    if ps is None or not isinstance(lit, str) or len(lit) != 1 or lit in '0123456789':
        return NOTFOUND
    off = 0
    terms = []
    for p in ps:
        if isinstance(p, str):
            i = p.find(lit)
            if i >= 0:
                if not terms:
                    return off + i
                t = (z3.Sum(*terms) if len(terms) > 1 else terms[0]) + (off + i)
                I.p.ghost[('findpos', t.get_id())] = (t, v, lit)
                return Sym(INT, t)
            off += len(p)
        elif isinstance(p, Digits):
            terms.append(z3.Length(p.t))
        else:
            return NOTFOUND
    return -1


def split_at_find(I, v, lit):
    """(head, tail) = (v[:i], v[i:]) where i is the first occurrence of the single non-digit char `lit`"""
    from .lib import str_from_parts
    ps = _parts(v)
    if ps is None or not isinstance(lit, str) or len(lit) != 1 or lit in '0123456789':
        return NOTFOUND
    for k, p in enumerate(ps):
        if isinstance(p, str):
            i = p.find(lit)
            if i >= 0:
                return str_from_parts(ps[:k] + [p[:i]]), str_from_parts([p[i:]] + ps[k + 1:])
        elif isinstance(p, OpaqueStr):
            return NOTFOUND
    return NOTFOUND


def int_value(I, v):
    """int(v) when v is a single Digits piece (possibly with literal digit pieces around: not handled)"""
    ps = _parts(v)
    if ps is None:
        return NOTFOUND
    if len(ps) == 1 and isinstance(ps[0], Digits) and ps[0].alphabet == '0123456789':
        return Sym(INT, ps[0].n)
    if any(isinstance(p, str) and not all(c in '0123456789' for c in p) for p in ps):
        return 'ValueError' if not any(isinstance(p, OpaqueStr) for p in ps) and not any(isinstance(p, str) and (p.strip() != p or p[:1] in '+-' or '_' in p) for p in ps) else NOTFOUND
    return NOTFOUND


def is_digits(v):
    ps = _parts(v)
    if ps is None:
        return NOTFOUND
    if not ps:
        return False
    if any(isinstance(p, OpaqueStr) for p in ps):
        if any(isinstance(p, str) and not p.isdigit() for p in ps):
            return False
        return NOTFOUND
    return all(isinstance(p, Digits) or (isinstance(p, str) and p.isascii() and p.isdigit()) for p in ps)


def _unambiguous(ps):
    for i, p in enumerate(ps):
        if isinstance(p, OpaqueStr):
            return False
        if isinstance(p, Digits):
            if i > 0:
                q = ps[i - 1]
                if not isinstance(q, str) or q[-1] in '0123456789':
                    return False
            if i + 1 < len(ps):
                q = ps[i + 1]
                if not isinstance(q, str) or q[0] in '0123456789':
                    return False
    return True


def equal(a, b):
    """Equality of two structured strings with the same unambiguous skeleton: iff all numbers are equal.
    (Digits pieces are delimited by non-digit characters, so each string parses in exactly one way.)"""
    pa, pb = _parts(a), _parts(b)
    if pa is None or pb is None:
        return NOTFOUND
    from .lib import norm_parts
    pa, pb = norm_parts(pa), norm_parts(pb)
    d = _definitely_different(pa, pb)
    if d:
        return False
    if not _unambiguous(pa) or not _unambiguous(pb):
        return NOTFOUND
    if len(pa) != len(pb):
        return NOTFOUND
    conds = []
    for x, y in zip(pa, pb):
        if isinstance(x, str) and isinstance(y, str):
            if x != y:
                return NOTFOUND
        elif isinstance(x, Digits) and isinstance(y, Digits):
            if x.width != y.width:
                return NOTFOUND
            conds.append(x.n == y.n)
        else:
            return NOTFOUND
    if not conds:
        return True
    return z3.And(*conds) if len(conds) > 1 else conds[0]


def equal_units(a, b):
    """equality when both strings are sequences of one-character units (literal chars / single digits)"""
    pa, pb = _parts(a), _parts(b)
    if pa is None or pb is None:
        return NOTFOUND
    ua, ub = _unit_pieces(pa), _unit_pieces(pb)
    if ua is None or ub is None:
        return NOTFOUND
    if len(ua) != len(ub):
        return False
    conds = []
    for x, y in zip(ua, ub):
        if isinstance(x, str) and isinstance(y, str):
            if x != y:
                return False
        elif isinstance(x, Digits) and isinstance(y, Digits):
            if x.alphabet != y.alphabet:
                return NOTFOUND
            conds.append(x.n == y.n)
        else:
            d, c = (x, y) if isinstance(x, Digits) else (y, x)
            if c not in d.alphabet:
                return False
            conds.append(d.n == d.alphabet.index(c))
    if not conds:
        return True
    return z3.And(*conds) if len(conds) > 1 else conds[0]


def lower(v):
    from .lib import str_from_parts
    ps = _parts(v)
    if ps is None or any(_is_open(p) for p in ps):
        return NOTFOUND
    return str_from_parts([p.lower() if isinstance(p, str) else p for p in ps])


def strip(v):
    from .lib import str_from_parts
    ps = _parts(v)
    if ps is None or not ps:
        return NOTFOUND if ps is None else ''
    if _is_open(ps[0]) or _is_open(ps[-1]):
        return NOTFOUND
    ps = list(ps)
    if isinstance(ps[0], str):
        ps[0] = ps[0].lstrip()
        if ps[0] == '' and len(ps) > 1 and isinstance(ps[1], OpaqueStr):
            return NOTFOUND
    if isinstance(ps[-1], str):
        ps[-1] = ps[-1].rstrip()
        if ps[-1] == '' and len(ps) > 1 and isinstance(ps[-2], OpaqueStr):
            return NOTFOUND
    return str_from_parts(ps)


def strip_side(v, side):
    """str.rstrip() / str.lstrip() without arguments on a structured string whose end piece on that side is a literal"""
    from .lib import str_from_parts
    ps = _parts(v)
    if ps is None or not ps:
        return NOTFOUND if ps is None else ''
    k = -1 if side == 'r' else 0
    if _is_open(ps[k]):
        return NOTFOUND
    ps = list(ps)
    if isinstance(ps[k], str):
        ps[k] = ps[k].rstrip() if side == 'r' else ps[k].lstrip()
        nb = (-2 if side == 'r' else 1)
        if ps[k] == '' and len(ps) > 1 and isinstance(ps[nb], OpaqueStr):
            return NOTFOUND
    elif isinstance(ps[k], OpaqueStr):
        return NOTFOUND
    return str_from_parts(ps)


def _first_class(ps):
    """'digit' | ('char', c) | None (unknown / empty)"""
    if not ps:
        return 'empty'
    p = ps[0]
    if isinstance(p, Digits):
        return 'digit'
    if isinstance(p, str):
        return 'digit' if p[0] in '0123456789' else ('char', p[0])
    return None


def _last_class(ps):
    if not ps:
        return 'empty'
    p = ps[-1]
    if isinstance(p, Digits):
        return 'digit'
    if isinstance(p, str):
        return 'digit' if p[-1] in '0123456789' else ('char', p[-1])
    return None


def _definitely_different(pa, pb):
    for f in (_first_class, _last_class):
        a, b = f(pa), f(pb)
        if a is None or b is None:
            continue
        if a != b:
            return True
    # count of a non-digit separator character differs (no opaque pieces)
    if not any(isinstance(p, OpaqueStr) for p in pa + pb):
        la = ''.join(p for p in pa if isinstance(p, str))
        lb = ''.join(p for p in pb if isinstance(p, str))
        nd_a = ''.join(c for c in la if c not in '0123456789')
        nd_b = ''.join(c for c in lb if c not in '0123456789')
        if nd_a != nd_b:
            return True
    return False


def split_at_registered(I, v, idx):
    """(v[:idx], v[idx:]) when idx is the result of an earlier find() on the same structured string"""
    if not isinstance(idx, Sym):
        return NOTFOUND
    reg = I.p.ghost.get(('findpos', idx.t.get_id()))
    if reg is None or reg[1] is not v:
        return NOTFOUND
    return split_at_find(I, v, reg[2])


def _unit_pieces(ps):
    """pieces as a list of one-character units, or None if some piece has unknown length"""
    out = []
    for p in ps:
        if isinstance(p, str):
            out.extend(p)
        elif isinstance(p, Digits) and p.single:
            out.append(p)
        else:
            return None
    return out


def concrete_len(v):
    ps = _parts(v)
    if ps is None:
        return NOTFOUND
    u = _unit_pieces(ps)
    return NOTFOUND if u is None else len(u)


def char_at(v, i):
    from .lib import str_from_parts
    ps = _parts(v)
    if ps is None or not isinstance(i, int):
        return NOTFOUND
    u = _unit_pieces(ps)
    if u is None:
        return NOTFOUND
    if i < -len(u) or i >= len(u):
        return 'IndexError'
    return str_from_parts([u[i]])


def lstrip_char(I, v, ch):
    """v.lstrip(ch) for a single character ch, on a string of one-character units (forks on symbolic digits)"""
    from .lib import str_from_parts
    ps = _parts(v)
    if ps is None or not isinstance(ch, str) or len(ch) != 1:
        return NOTFOUND
    u = _unit_pieces(ps)
    if u is None:
        return NOTFOUND
    k = 0
    while k < len(u):
        p = u[k]
        if isinstance(p, str):
            if p == ch:
                k += 1
                continue
            break
        if ch in p.alphabet:
            if I.branch(p.n == p.alphabet.index(ch)):
                k += 1
                continue
        break
    return str_from_parts(u[k:])


def rstrip_char(I, v, ch):
    from .lib import str_from_parts
    ps = _parts(v)
    if ps is None or not isinstance(ch, str) or len(ch) != 1:
        return NOTFOUND
    u = _unit_pieces(ps)
    if u is None:
        return NOTFOUND
    k = len(u)
    while k > 0:
        p = u[k - 1]
        if isinstance(p, str):
            if p == ch:
                k -= 1
                continue
            break
        if ch in p.alphabet:
            if I.branch(p.n == p.alphabet.index(ch)):
                k -= 1
                continue
        break
    return str_from_parts(u[:k])


def replace_absent(v, a):
    """True when the one-character string a cannot occur in v (so v.replace(a, b) == v)"""
    ps = _parts(v)
    if ps is None or len(a) != 1:
        return False
    for p in ps:
        if isinstance(p, str):
            if a in p:
                return False
        elif isinstance(p, Digits):
            if a in p.alphabet:
                return False
        else:
            if not (p.alpha and not a.isalpha()):
                return False
    return True
