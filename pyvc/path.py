"""Path exploration by re-execution with a decision prefix; obligations are collected per path."""
import z3


_STR_CACHE = {}


def has_strings(t):
    """does the term contain a string/sequence-sorted subterm?"""
    tid = t.get_id()
    if tid in _STR_CACHE:
        return _STR_CACHE[tid][0]
    seen = set()
    stack = [t]
    found = False
    while stack:
        x = stack.pop()
        i = x.get_id()
        if i in seen:
            continue
        seen.add(i)
        k = x.sort().kind()
        if k == z3.Z3_SEQ_SORT or k == z3.Z3_RE_SORT:
            found = True
            break
        if z3.is_app(x):
            stack.extend(x.children())
        elif z3.is_quantifier(x):
            stack.append(x.body())
    _STR_CACHE[tid] = (found, t)      # keep the term alive: z3 reuses ids of collected ASTs
    return found


_Q_CACHE = {}


def has_quantifier(t):
    tid = t.get_id()
    if tid in _Q_CACHE:
        return _Q_CACHE[tid][0]
    seen = set()
    stack = [t]
    found = False
    while stack:
        x = stack.pop()
        i = x.get_id()
        if i in seen:
            continue
        seen.add(i)
        if z3.is_quantifier(x):
            found = True
            break
        if z3.is_app(x):
            stack.extend(x.children())
    _Q_CACHE[tid] = (found, t)
    return found


class PathEnd(Exception):
    """The current path is abandoned (infeasible, or cut at a loop head after the inductive step)."""


class Unsupported(Exception):
    """The engine cannot model a construct on this path; the function is reported undecided."""


class Obligation:
    __slots__ = ('name', 'kind', 'line', 'pc', 'goal', 'tainted', 'path_id', 'note', 'func')

    def __init__(self, name, kind, line, pc, goal, tainted, path_id, note='', func=''):
        self.name = name
        self.kind = kind
        self.line = line
        self.pc = pc
        self.goal = goal
        self.tainted = tainted
        self.path_id = path_id
        self.note = note
        self.func = func


class Path:
    FEAS_TIMEOUT_MS = 1500

    def __init__(self, prefix, path_id):
        self.prefix = list(prefix)
        self.taken = []
        self.idx = 0
        self.pc = []
        self.solver = z3.Solver()
        self.solver.set('timeout', self.FEAS_TIMEOUT_MS)
        # feasibility of string-free branch conditions is decided on the string-free part of the path condition
        # (an over-approximation: it can only keep more paths alive, never drop a feasible one)
        self.arith = z3.Solver()
        self.arith.set('timeout', self.FEAS_TIMEOUT_MS)
        self.alternatives = []
        self.obligations = []
        self.known = {}
        self.counter = 0
        self.tainted = False
        self.taints = []
        self.path_id = path_id
        self.notes = []
        self.bounded = []     # notes of bounded unrollings
        self.ghost = {}
        self.inputs = {}

    def fresh_name(self, hint):
        self.counter += 1
        return f'{hint}!{self.counter}'

    def assume(self, t):
        if isinstance(t, bool):
            if not t:
                raise PathEnd()
            return
        self.pc.append(t)
        # feasibility is decided on an over-approximation of the path condition: quantified facts (loop invariants)
        # are left out of both feasibility solvers, string facts out of the arithmetic one.  This can only keep
        # more paths alive; obligations are always discharged against the full path condition.
        if has_quantifier(t):
            return
        self.solver.add(t)
        if not has_strings(t):
            self.arith.add(t)

    def feasible(self, c):
        s = self.solver if has_strings(c) else self.arith
        s.push()
        s.add(c)
        r = s.check()
        s.pop()
        return r != z3.unsat

    def branch(self, c):
        if isinstance(c, bool):
            return c
        c = z3.simplify(c)
        if z3.is_true(c):
            return True
        if z3.is_false(c):
            return False
        cid = c.get_id()
        if cid in self.known:
            return self.known[cid][0]
        if self.idx < len(self.prefix):
            d = self.prefix[self.idx]
        else:
            # refutations are fast, models of the calendar closed forms are slow: ask for the refutation first and
            # skip the satisfiability question when one side is already excluded
            can_f = self.feasible(z3.Not(c))
            can_t = True if not can_f else self.feasible(c)
            if can_t and can_f:
                self.alternatives.append(self.taken + [False])
                d = True
            elif can_t:
                d = True
            elif can_f:
                d = False
            else:
                raise PathEnd()
        self.taken.append(d)
        self.idx += 1
        self.known[cid] = (d, c)     # pin the term: ids of collected ASTs are reused
        nc = z3.simplify(z3.Not(c))
        self.known[nc.get_id()] = (not d, nc)
        self.assume(c if d else nc)
        return d

    def oblige(self, name, kind, line, goal, note='', func=''):
        """Record `pc => goal` as an obligation, then continue under the assumption that it holds."""
        if isinstance(goal, bool):
            goal = z3.BoolVal(goal)
        ob = Obligation(name, kind, line, list(self.pc), goal, self.tainted, self.path_id, note, func)
        self.obligations.append(ob)
        g = z3.simplify(goal)
        if z3.is_false(g):
            # cannot continue under a false assumption: the path ends here
            raise PathEnd()
        if not z3.is_true(g):
            self.assume(goal)

    def taint(self, reason):
        self.tainted = True
        if reason not in self.taints:
            self.taints.append(reason)


def explore(run, max_paths=4000):
    """run(path) executes the analysed function once along the path's decisions.
    Returns (paths, complete)."""
    work = [[]]
    paths = []
    n = 0
    while work:
        if n >= max_paths:
            return paths, False
        prefix = work.pop()
        p = Path(prefix, n)
        n += 1
        try:
            run(p)
        except PathEnd:
            pass
        work.extend(p.alternatives)
        paths.append(p)
    return paths, True
