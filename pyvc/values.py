"""Symbolic values.  Concrete Python values (int, str, bool, None, list, tuple, dict) are used as they
are; only values that depend on symbolic inputs are wrapped."""
import z3

INT, BOOL, REAL, STR = 'int', 'bool', 'real', 'str'


class Sym:
    """A symbolic scalar: kind in {int,bool,real,str} with a z3 term."""
    __slots__ = ('kind', 't', 'taint', 'parts')

    def __init__(self, kind, t, taint=False, parts=None):
        self.kind = kind
        self.t = t
        self.taint = taint
        self.parts = parts      # for strings: optional structure, list of str | Digits | OpaqueStr (see lib.py)

    def __repr__(self):
        return f'Sym<{self.kind}:{self.t}>'


class SChar(Sym):
    """s[i] of a symbolic string: a one-character string that remembers where it came from, so that character
    predicates become uninterpreted functions of (string, position) — no string theory in index-level proofs."""
    __slots__ = ('src', 'idx')

    def __init__(self, t, src, idx):
        Sym.__init__(self, STR, t)
        self.src = src
        self.idx = idx


class Digits:
    """String piece: decimal representation of n >= 0, zero-padded to at least `width` (only [0-9], non-empty)."""
    __slots__ = ('n', 'width', 't', 'single', 'alphabet')

    def __init__(self, n, width, t, single=False, alphabet='0123456789'):
        self.n, self.width, self.t = n, width, t
        self.single = single      # known to be exactly one character: alphabet[n]
        self.alphabet = alphabet

    def __repr__(self):
        return f'Digits<{self.n},{self.width}>'


class OpaqueStr:
    """String piece of unknown content."""
    __slots__ = ('t', 'alpha')

    def __init__(self, t, alpha=False):
        self.t = t
        self.alpha = alpha      # known to consist of lower-case ASCII letters only (possibly empty)

    def __repr__(self):
        return f'OpaqueStr<{self.t}>'


class SOpt:
    """A value that is None (or absent, for attributes) when `isnone` holds, else `val`."""
    __slots__ = ('isnone', 'val', 'absent')

    def __init__(self, isnone, val, absent=False):
        self.isnone = isnone
        self.val = val
        self.absent = absent

    def __repr__(self):
        return f'SOpt<{self.isnone}?None:{self.val}>'


class Absent:
    def __repr__(self):
        return 'ABSENT'


ABSENT = Absent()


class SDateTime:
    """datetime value: proleptic Gregorian ordinal + second of day (microseconds are not modelled)."""
    __slots__ = ('ord', 'sec', '_ymd', 'is_date')

    def __init__(self, ord_, sec, ymd=None, is_date=False):
        self.ord = ord_
        self.sec = sec
        self._ymd = ymd
        self.is_date = is_date

    def __repr__(self):
        return f'SDateTime<{self.ord},{self.sec}>'


class STimedelta:
    """timedelta as days*86400 + secs (unnormalised; microseconds not modelled)."""
    __slots__ = ('days', 'secs')

    def __init__(self, days, secs=0):
        self.days = days
        self.secs = secs

    def __repr__(self):
        return f'STimedelta<{self.days}d,{self.secs}s>'


class Obj:
    """A heap object of a repository class.  Identity is Python identity."""
    _n = 0

    def __init__(self, cls, fields=None, label=None):
        self.cls = cls
        self.fields = fields if fields is not None else {}
        Obj._n += 1
        self.label = label or f'{cls.name if cls is not None else "obj"}#{Obj._n}'
        self.frozen = False

    def __repr__(self):
        return f'<{self.label}>'


class EnumMember:
    """A member of a plain enum.Enum subclass of the repository: equal only to itself (never to its int value)."""
    _cache = {}

    def __init__(self, cls, name, value):
        self.cls, self.name, self.value = cls, name, value

    @classmethod
    def of(cls_, cls, name, value):
        key = (cls.module.relpath, cls.name, name)
        m = cls_._cache.get(key)
        if m is None:
            m = cls_._cache[key] = cls_(cls, name, value)
        return m

    def __repr__(self):
        return f'<{self.cls.name}.{self.name}: {self.value!r}>'


class ClassVal:
    def __init__(self, info):
        self.info = info

    def __repr__(self):
        return f'<class {self.info.name}>'


class FuncVal:
    def __init__(self, info, self_val=None, defcls=None):
        self.info = info
        self.self_val = self_val
        self.defcls = defcls

    def __repr__(self):
        return f'<func {self.info.qualname}>'


class ModuleVal:
    def __init__(self, dotted):
        self.dotted = dotted

    def __repr__(self):
        return f'<module {self.dotted}>'


class Builtin:
    def __init__(self, name, fn=None):
        self.name = name
        self.fn = fn

    def __repr__(self):
        return f'<builtin {self.name}>'


class BoundBuiltin:
    """method of a modelled library value, e.g. 'abc'.startswith"""
    def __init__(self, recv, name):
        self.recv = recv
        self.name = name

    def __repr__(self):
        return f'<method {self.name} of {self.recv!r}>'


class Lambda:
    def __init__(self, node, frame, interp_module):
        self.node = node
        self.frame = frame
        self.module = interp_module


class Unknown:
    """Engine havoc: a value the engine could not model.  Always tainted."""
    def __init__(self, reason):
        self.reason = reason

    def __repr__(self):
        return f'Unknown<{self.reason}>'


class SSeq:
    """Symbolic-length list of scalars: z3 Seq term; elem kind in {int,bool,str} or ('dt',) for datetimes
    (encoded as total seconds)."""
    __slots__ = ('t', 'elem')

    def __init__(self, t, elem):
        self.t = t
        self.elem = elem

    def __repr__(self):
        return f'SSeq<{self.elem}:{self.t}>'


class SArr:
    """Symbolic-length list backed by an SMT array Int->T plus a length (for index-heavy loops)."""
    __slots__ = ('arr', 'n', 'elem', 'arr2', 'src')

    def __init__(self, arr, n, elem, arr2=None):
        self.arr = arr
        self.n = n
        self.elem = elem
        self.arr2 = arr2       # for elem 'dt': arr = ordinals, arr2 = seconds of day
        self.src = None

    def __repr__(self):
        return f'SArr<{self.elem} n={self.n}>'


class SRecList:
    """Symbolic-length list of records, struct-of-arrays: fields name -> (kind, z3 Array Int->sort)."""
    __slots__ = ('n', 'fields', 'cls')

    def __init__(self, n, fields, cls=None):
        self.n = n
        self.fields = fields
        self.cls = cls

    def __repr__(self):
        return f'SRecList<n={self.n} {list(self.fields)}>'


def sort_of(kind):
    return {INT: z3.IntSort(), BOOL: z3.BoolSort(), REAL: z3.RealSort(), STR: z3.StringSort()}[kind]


def is_sym(v):
    return isinstance(v, (Sym, SOpt, SDateTime, STimedelta, SSeq, SArr, SRecList, Unknown))
