"""Property-level orchestration: contracts + closed obligations -> verdict, evidence, replay files."""
import importlib
import json
import os
import pkgutil
import subprocess
import sys
import time
import traceback
from concurrent.futures import ProcessPoolExecutor

VERIF = os.path.dirname(os.path.dirname(os.path.abspath(__file__)))
# tools/seeded_run.py and tools/harmless_run.py point this elsewhere so that runs on a deliberately changed /repo do not
# overwrite the evidence of the unchanged tree
EVIDENCE_DIR = os.environ.get('VERIF_EVIDENCE_DIR') or os.path.join(VERIF, 'evidence')
REPLAY_DIR = os.path.join(EVIDENCE_DIR, 'replay')

TRUSTED_BASE = [
    'pyvc VC generator (/verif/pyvc): Python subset semantics as stated in DESIGN.md section 3 (ints are mathematical = exact for Python int)',
    'z3 4.x/5.1 and cvc5 1.0.3 SMT solvers',
    'library models in pyvc/lib*.py (str, list, dict, datetime as ordinal+seconds; microseconds and tzinfo not modelled); validated against CPython by tools/validate_lib.py',
    'CPython 3.12 itself',
]


def load_modules():
    import contracts as pkg
    mods = []
    for m in pkgutil.iter_modules(pkg.__path__):
        mods.append(importlib.import_module('contracts.' + m.name))
    return mods


def all_contracts():
    out = []
    for m in load_modules():
        out.extend(getattr(m, 'CONTRACTS', []))
    ids = [c.id for c in out]
    assert len(ids) == len(set(ids)), 'duplicate contract ids'
    return out


def all_closed():
    out = []
    for m in load_modules():
        out.extend(getattr(m, 'CLOSED', []))
    return out


def load_known():
    p = os.path.join(VERIF, 'known_findings.json')
    if not os.path.exists(p):
        return []
    return json.load(open(p)).get('findings', [])


def _signature(env, c):
    """parameter names of the real function (from its AST): decorated functions hide them from inspect.signature"""
    try:
        a = env.repo.find(c.target).node.args
        return [x.arg for x in a.posonlyargs + a.args + a.kwonlyargs]
    except Exception:
        return None


def _worker(job):
    """job: (contract id, variant, extra_requires, thorough)"""
    cid, variant, extra, thorough = job
    sys.setrecursionlimit(20000)
    from pyvc.contract import VerifEnv, verify
    import copy
    t0 = time.time()
    try:
        cs = all_contracts()
        env = VerifEnv(cs)
        c = copy.copy(env.contracts[cid])
        c.requires = list(c.requires) + list(extra)
        r = verify(env, c, thorough)
        obs = []
        for o in r.obligations.values():
            obs.append(dict(name=o.name, kind=o.kind, func=o.func, line=o.line, note=o.note, verdict=o.verdict,
                            instances=o.instances, backends=o.backends, seconds=round(o.seconds, 3),
                            model=o.model, witness=o.witness, witness_error=o.witness_error,
                            tainted=o.tainted_refutation, reason=o.reason, sample=o.sample))
        return dict(cid=cid, variant=variant, status=r.status, paths=r.paths, complete=r.complete,
                    unsupported=r.unsupported[:20], crash=r.crash, sha=r.func_sha, target=c.target,
                    abstracted=r.abstracted, notes=r.notes, bounded=r.bounded, obligations=obs,
                    seconds=round(time.time() - t0, 2), props=c.props, note=c.note, is_bounded=c.bounded,
                    requires=c.requires, modular=c.modular, signature=_signature(env, c),
                    env_opaque=any(v != 'none' for v in (c.regex_env or {}).values()))
    except Exception:
        return dict(cid=cid, variant=variant, status='crash', crash=traceback.format_exc(), obligations=[],
                    paths=0, unsupported=[], seconds=round(time.time() - t0, 2), target='?', sha=None,
                    abstracted=[], notes=[], bounded=[], props=[], note='', complete=False, requires=[], modular=[])


def write_replay(pid, rec, ob, contract_meta):
    os.makedirs(REPLAY_DIR, exist_ok=True)
    safe = ob['name'].replace('/', '_').replace(':', '_').replace('#', '_')
    path = os.path.join(REPLAY_DIR, f'{pid}_{rec["cid"]}_{safe}.json')
    data = dict(property=pid, contract=rec['cid'], target=rec['target'], obligation=ob['name'], kind=ob['kind'],
                clause=ob['note'], line=ob['line'], function=ob['func'], witness=ob.get('witness'),
                witness_error=ob.get('witness_error'), solver_model=ob.get('model'),
                solver_output=f'{ob["verdict"]} by {ob["backends"]}; {ob.get("reason", "")}',
                sample_vc=ob.get('sample'), requires=rec.get('requires'), signature=rec.get('signature'))
    with open(path, 'w') as f:
        json.dump(data, f, indent=1, default=str)
    return path


ADVERSARIAL_STRINGS = ['\u0130 3 x', '\u00df 12 kg', '\ufb01le 25 usd', 'e\u0301 7 pm', '\u00bd 3', '\u2026 42', '\uff11\uff12 \uff0c 5',
                       '\u4e2d 5', '\U0001F44D yes', 'A\u030a 9', '\u1e9e 4 $', 'x\u00a05']


def adversarial_replay(path):
    """The solver refuted an obligation but its own input does not fail natively (under-constrained library model or
    engine havoc).  Before giving up, the top-level string parameters of the witness are replaced by strings from a
    fixed adversarial pool (case-expanding, compatibility, combining, full-width, CJK, emoji code points) and the real
    function is run again; only a natively failing input turns the refutation into a violation."""
    with open(path) as f:
        d = json.load(f)
    w = d.get('witness') or {}
    names = [k for k, v in w.items() if isinstance(v, str)]
    for name in names:
        for s in ADVERSARIAL_STRINGS:
            d2 = dict(d)
            d2['witness'] = dict(w)
            d2['witness'][name] = s
            p2 = path[:-5] + '.adversarial.json'
            with open(p2, 'w') as f:
                json.dump(d2, f, indent=1, default=str)
            status, text = run_replay(p2, 30)
            if status == 'confirmed':
                d2['replay_status'] = 'confirmed'
                d2['replay_output'] = text[-3000:]
                d2['note'] = f'failing input found by the adversarial-string search (parameter {name})'
                with open(p2, 'w') as f:
                    json.dump(d2, f, indent=1, default=str)
                return p2
            os.remove(p2)
    return None


def native_probe(pid, cid, seed):
    """A proof-level obligation (loop invariant, termination measure, call-site precondition) no longer goes through.
    That alone says the PROOF needs maintenance, not that the property is violated (a harmless refactoring of a loop
    does this).  The contract's postconditions are therefore tried natively on the real function: inputs sampled from
    solver models of the precondition, each also with the adversarial strings substituted.  Returns the replay file of
    a natively failing input, or None."""
    from pyvc.contract import VerifEnv
    from pyvc.sampling import sample
    from pyvc import sorts as _sorts
    cs = all_contracts()
    c = next((x for x in cs if x.id == cid), None)
    if c is None:
        return None, 0
    ghosts = {g for spec in c.loops.values() for g in getattr(spec, 'ghost', {})}
    import re as _re
    clauses = [src for _, src in c.ensures if not any(_re.search(r'\b%s\b' % _re.escape(g), src) for g in ghosts)] + list(c.native_ensures)
    if not clauses:
        return None, 0
    env = VerifEnv(cs)
    try:
        ws, _why = sample(env, c, 40, seed)
    except Exception:
        ws = []
    cands = list(ws)
    for w in ws[:2]:
        for name, v in w.items():
            if isinstance(v, str):
                for s_ in ADVERSARIAL_STRINGS:
                    w2 = dict(w)
                    w2[name] = s_
                    cands.append(w2)
    os.makedirs(REPLAY_DIR, exist_ok=True)
    from concurrent.futures import ThreadPoolExecutor
    seen = set()
    uniq = []
    for w in cands:
        key = json.dumps(w, sort_keys=True, default=str)
        if key not in seen:
            seen.add(key)
            uniq.append(w)
    final = os.path.join(REPLAY_DIR, f'{pid}_{cid}_native_probe.json')

    def one(job):
        k, w = job
        path = final[:-5] + f'.{k}.json'
        with open(path, 'w') as f:
            json.dump(dict(property=pid, contract=cid, target=c.target, obligation='native-probe/post', kind='post',
                           clause=' and '.join(f'({x})' for x in clauses), witness=w,
                           allow_raise=list(c.raises) + list(c.allow_raise), signature=_signature(env, c),
                           param_exprs={n: srt.src for n, srt in c.params.items() if isinstance(srt, _sorts.Expr)}),
                      f, indent=1, default=str)
        status, text = run_replay(path, 30)
        return path, status, text
    hit = None
    runs = 0
    with ThreadPoolExecutor(max_workers=8) as ex:
        for path, status, text in ex.map(one, list(enumerate(uniq[:96]))):
            runs += 1
            if status == 'confirmed' and hit is None:
                with open(path) as f:
                    d = json.load(f)
                d['replay_status'] = 'confirmed'
                d['replay_output'] = text[-3000:]
                with open(final, 'w') as f:
                    json.dump(d, f, indent=1, default=str)
                hit = final
            os.remove(path)
    return hit, runs


def run_replay(path, timeout=60):
    """Returns ('confirmed'|'not-reproduced'|'not-constructed'|'error', text)"""
    py = sys.executable
    try:
        p = subprocess.run([py, os.path.join(VERIF, 'tools', 'replay.py'), path], capture_output=True, text=True,
                           timeout=timeout)
    except subprocess.TimeoutExpired:
        return 'error', 'replay timed out'
    out = (p.stdout or '') + (p.stderr or '')
    if p.returncode == 1:
        return 'confirmed', out
    if p.returncode == 0:
        return 'not-reproduced', out
    if p.returncode == 4:
        return 'not-constructed', out
    return 'error', out


def run_property(pid, tier='quick', seed=0, only=None):
    t0 = time.time()
    thorough = tier == 'thorough'
    contracts = [c for c in all_contracts() if pid in c.props]
    assumed_contracts = [c for c in contracts if c.assumed]
    contracts = [c for c in contracts if not c.assumed]
    if only:
        contracts = [c for c in contracts if any(o in c.id for o in only)]
    closed = [f for f in all_closed() if pid in f.props]
    known = [k for k in load_known() if k.get('property') == pid and k.get('status', 'open') == 'open']
    jobs = []
    for c in contracts:
        ks = [k for k in known if k.get('contract') == c.id]
        whole = [k for k in ks if k['predicate'] == '*']
        if whole:
            # the finding covers the contract's whole domain: only confirm that it still fails
            jobs.append((c.id, f'known:{whole[0]["id"]}', [], thorough))
            continue
        extra = [f'not ({k["predicate"]})' for k in ks]
        jobs.append((c.id, 'main', extra, thorough))
        for i, k in enumerate(ks):
            jobs.append((c.id, f'known:{k["id"]}', [k['predicate']], thorough))
    results = []
    if jobs:
        nproc = min(len(jobs), int(os.environ.get('PYVC_PROCS', '8')))
        with ProcessPoolExecutor(max_workers=nproc) as ex:
            results = list(ex.map(_worker, jobs))
    closed_results = []
    for f in closed:
        try:
            closed_results.extend(f(tier, seed))
        except Exception:
            closed_results.append(dict(name=f.__name__, verdict='crash', detail=traceback.format_exc(), kind='closed'))

    violations = []
    undecided = []
    crashes = []
    known_lines = []
    n_ob = n_dis = 0
    by_backend = {}
    solver_s = 0.0
    funcs = []
    samples = []
    abstracted = []
    assumptions = set()
    for c in assumed_contracts:
        assumptions.add(f'ASSUMED contract {c.id} on {c.target}: {c.assumed}')
    bounded = []
    for rec in results:
        main = rec['variant'] == 'main'
        if rec['status'] == 'crash':
            crashes.append(f'{rec["cid"]}: {rec["crash"][-600:]}')
            continue
        if main:
            funcs.append(dict(contract=rec['cid'], function=rec['target'], sha=rec['sha'], paths=rec['paths'],
                              obligations=len(rec['obligations']), status=rec['status'], seconds=rec['seconds'],
                              modular_callees=rec['modular']))
            for a in rec['abstracted']:
                abstracted.append(f'{rec["cid"]}: {a}')
            for nte in rec['notes']:
                assumptions.add(f'{rec["cid"]}: {nte}')
            bounded.extend(rec['bounded'])
            for u in rec['unsupported']:
                undecided.append(f'{rec["cid"]}: {u}')
            if not rec['obligations'] and not rec['unsupported']:
                undecided.append(f'{rec["cid"]}: zero obligations generated (vacuous)')
            if rec.get('is_bounded'):
                ok = all(ob['verdict'] == 'unsat' for ob in rec['obligations']) and not rec['unsupported']
                bounded.append(f'{rec["cid"]}: BOUNDED stand-in ({rec["is_bounded"]}); {len(rec["obligations"])} checks, '
                               f'{"all passed" if ok else "NOT all passed"}; not counted in obligations/discharged')
            proof_level_failures = []
            n_viol_before = len(violations)
            for ob in rec['obligations']:
                if not rec.get('is_bounded'):
                    n_ob += 1
                solver_s += ob['seconds']
                for b, n in ob['backends'].items():
                    by_backend[b] = by_backend.get(b, 0) + n
                if ob['verdict'] == 'unsat':
                    if not rec.get('is_bounded'):
                        n_dis += 1
                    if len(samples) < 6 and ob.get('sample'):
                        samples.append(dict(obligation=f'{pid}/{rec["cid"]}/{ob["name"]}', clause=ob['note'],
                                            vc=ob['sample'][:400], instances=ob['instances']))
                elif ob['verdict'] == 'sat' and ob['kind'] not in ('post', 'raises'):
                    proof_level_failures.append(ob)
                elif ob['verdict'] == 'sat':
                    path = write_replay(pid, rec, ob, None)
                    if rec.get('env_opaque'):
                        # regex matches are environment values of this contract: natively the pattern names would be run as
                        # real regexes, which is a different environment, so a native run proves nothing either way
                        status, text = 'not-constructed', 'not replayable: the contract has a regex environment (matches are environment values)'
                    else:
                        status, text = run_replay(path)
                    with open(path) as f:
                        d = json.load(f)
                    d['replay_status'] = status
                    d['replay_output'] = text[-3000:]
                    with open(path, 'w') as f:
                        json.dump(d, f, indent=1, default=str)
                    if status == 'confirmed':
                        violations.append((f'{rec["cid"]}/{ob["name"]}', path, ''))
                    elif status == 'not-reproduced' and ob['kind'] == 'post' and adversarial_replay(path):
                        violations.append((f'{rec["cid"]}/{ob["name"]}', path[:-5] + '.adversarial.json', ''))
                    elif status == 'not-reproduced':
                        undecided.append(f'{rec["cid"]}/{ob["name"]}: refuted by the solver but the counterexample does not '
                                         f'reproduce on the real code (engine imprecision?) see {path}')
                    else:
                        violations.append((f'{rec["cid"]}/{ob["name"]}', path, ' no-failing-input-found'))
                else:
                    adv = None
                    if ob.get('tainted') and ob.get('witness') and ob['kind'] == 'post':
                        path = write_replay(pid, rec, ob, None)
                        adv = adversarial_replay(path)
                        if adv is None:
                            os.remove(path)
                    if adv:
                        violations.append((f'{rec["cid"]}/{ob["name"]}', adv, ''))
                    else:
                        undecided.append(f'{rec["cid"]}/{ob["name"]}: {ob["verdict"]} {ob.get("reason", "")}')
            if rec['unsupported'] and not proof_level_failures and len(violations) == n_viol_before and not rec.get('is_bounded') \
                    and not rec.get('env_opaque'):
                # the engine could not finish this contract (a construct outside its subset): the verdict stays undecided,
                # unless the postconditions already fail natively on a sampled / adversarial input of the real function
                ppath, runs = native_probe(pid, rec['cid'], seed)
                if ppath:
                    violations.append((f'{rec["cid"]}/native-probe (engine limit: {rec["unsupported"][0][:80]})', ppath, ''))
            if proof_level_failures:
                names = ', '.join(o['name'].split('/', 1)[-1] for o in proof_level_failures[:4])
                if len(violations) > n_viol_before:
                    pass        # a postcondition of the same contract is already reported as violated
                else:
                    ppath, runs = native_probe(pid, rec['cid'], seed)
                    if ppath:
                        violations.append((f'{rec["cid"]}/{proof_level_failures[0]["name"]}', ppath, ''))
                    else:
                        undecided.append(f'{rec["cid"]}: proof-level obligation(s) no longer discharged ({names}); the postconditions '
                                         f'held natively on {runs} sampled / adversarial inputs of the real function: the proof needs '
                                         f'maintenance, the property is not refuted')
        else:
            kid = rec['variant'].split(':', 1)[1]
            k = next(x for x in known if x['id'] == kid)
            still = [ob for ob in rec['obligations'] if ob['name'] == k['obligation'] and ob['verdict'] == 'sat']
            if k['predicate'] == '*':
                other = [ob for ob in rec['obligations'] if ob['name'] != k['obligation'] and ob['verdict'] == 'sat']
                for ob in other:
                    path = write_replay(pid, rec, ob, None)
                    violations.append((f'{rec["cid"]}/{ob["name"]}', path, ' no-failing-input-found'))
            if still:
                known_lines.append(f'KNOWN-FINDING: property={pid} {k["what"]} [{rec["cid"]}/{k["obligation"]} under {k["predicate"]}]')
            else:
                known_lines.append(f'NOTE: known finding {kid} no longer reproduces ({rec["cid"]}/{k["obligation"]}); consider marking it fixed')
    for cr in closed_results:
        cnt = 0 if cr.get('bounded') else int(cr.get('count', 1))      # bounded stand-ins are never counted as discharged
        n_ob += cnt
        v = cr['verdict']
        if v == 'unsat':
            n_dis += cnt
            by_backend[cr.get('backend', 'closed-eval')] = by_backend.get(cr.get('backend', 'closed-eval'), 0) + 1
            if len(samples) < 8:
                samples.append(dict(obligation=f'{pid}/{cr["name"]}', clause=cr.get('detail', '')[:300]))
        elif v == 'sat':
            kf = next((k for k in known if k.get('obligation') == cr['name'] and k.get('witness_key') in (None, cr.get('witness_key'))), None)
            if kf is not None and cr.get('all_known', True):
                n_dis += 0
                known_lines.append(f'KNOWN-FINDING: property={pid} {kf["what"]} [{cr["name"]}]')
                n_ob -= cnt
            else:
                os.makedirs(REPLAY_DIR, exist_ok=True)
                path = os.path.join(REPLAY_DIR, f'{pid}_{cr["name"].replace("/", "_").replace(":", "_")}.json')
                with open(path, 'w') as f:
                    json.dump(cr, f, indent=1, default=str)
                violations.append((cr['name'], path, '' if cr.get('replayed') else ' no-failing-input-found'))
        elif v == 'crash':
            crashes.append(f'{cr["name"]}: {cr.get("detail", "")[-600:]}')
        else:
            undecided.append(f'{cr["name"]}: {cr.get("detail", "")[:300]}')
        for a in cr.get('assumptions', []):
            assumptions.add(a)
        if cr.get('bounded'):
            bounded.append(cr['bounded'])
        solver_s += cr.get('seconds', 0)

    crosscheck = None
    if thorough:
        # engine cross-check (tools/crosscheck.py): proved postconditions evaluated natively on sampled inputs of the real code
        try:
            cp = subprocess.run([sys.executable, os.path.join(VERIF, 'tools', 'crosscheck.py'), pid, '--samples', '3', '--seed', str(seed)],
                                capture_output=True, text=True, timeout=3000)
            line = next((l for l in cp.stdout.splitlines() if l.startswith('crosscheck: contracts=')), '')
            crosscheck = dict(exit=cp.returncode, summary=line)
            if cp.returncode == 3:
                for l in cp.stdout.splitlines():
                    if l.startswith('DISAGREE'):
                        crashes.append('engine cross-check: ' + l)
            elif cp.returncode != 0:
                undecided.append(f'engine cross-check did not run: {(cp.stdout + cp.stderr)[-300:]}')
        except subprocess.TimeoutExpired:
            undecided.append('engine cross-check timed out')
    wall = time.time() - t0
    level = 'proof'
    meta = PROPERTY_META.get(pid, {})
    level = meta.get('level', 'proof')
    cov = dict(obligations=n_ob, discharged=n_dis,
               checker_cmd=f'./check {pid} --tier {tier}',
               trusted_base=TRUSTED_BASE + meta.get('trusted', []),
               functions_under_contract=funcs, by_backend=by_backend, solver_s=round(solver_s, 2),
               samples=samples or [dict(note='no obligations')],
               abstracted=abstracted[:60], bounded=bounded, undecided=undecided[:40],
               known_findings=known_lines,
               explanation=meta.get('explanation', ''))
    if crosscheck is not None:
        cov['engine_crosscheck'] = crosscheck
    ev = dict(property_id=pid, tier=tier, seed=int(seed), level=level, coverage=cov,
              assumptions=sorted(assumptions) + meta.get('assumptions', []), wall_s=round(wall, 2),
              violations=len(violations))
    os.makedirs(EVIDENCE_DIR, exist_ok=True)
    with open(os.path.join(EVIDENCE_DIR, f'{pid}.json'), 'w') as f:
        json.dump(ev, f, indent=1, default=str)

    for rec in results:
        if rec['variant'] == 'main':
            print(f'  {rec["cid"]:<46} {rec["status"]:<10} paths={rec["paths"]:<4} obligations={len(rec["obligations"]):<3} {rec["seconds"]}s')
    for cr in closed_results:
        print(f'  closed {cr["name"]:<39} {cr["verdict"]}')
    for l in known_lines:
        print(l)
    print(f'{pid}: obligations={n_ob} discharged={n_dis} violations={len(violations)} undecided={len(undecided)} crashes={len(crashes)} wall={wall:.1f}s')
    if crashes:
        for c in crashes:
            print('CRASH', c)
        return 3
    if violations:
        for name, path, suffix in violations:
            print(f'  refuted obligation: {name}')
            print(f'VIOLATION property={pid} replay={path}{suffix}')
        return 1
    if undecided:
        for u in undecided[:30]:
            print('UNDECIDED', u)
        return 2
    if n_ob == 0:
        print('UNDECIDED no obligations')
        return 2
    return 0


PROPERTY_META = {}


def register_meta(pid, **kw):
    PROPERTY_META[pid] = kw
