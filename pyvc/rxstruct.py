"""A matcher for a small regex subset over *structured* strings (pieces: literal | Digits | OpaqueStr).
Used for `re.compile(P).match(s)` when P is a concrete pattern of the subset and s is structured.  Subset:
^ $ literals, \\d (also {n}, *, +, ?), escaped literals, named groups, alternation of literal words, '?' on a
literal.  A run of digit atoms must consume a Digits piece entirely (or concrete digit characters); anything
else raises Unsupported.  Semantics cross-checked against the real `re` engine by tools/validate_lib.py."""
import re

import z3

from .values import *
from .path import Unsupported

try:
    import re._parser as sre_parse
    import re._constants as sre_c
except ImportError:     # pragma: no cover
    import sre_parse
    import sre_constants as sre_c


class It:
    def __init__(self, kind, a=None, b=None):
        self.kind, self.a, self.b = kind, a, b

    def __repr__(self):
        return f'{self.kind}({self.a},{self.b})'


def _is_digit_in(av):
    return len(av) == 1 and av[0][0] == sre_c.CATEGORY and av[0][1] == sre_c.CATEGORY_DIGIT


def compile_items(pattern, flags=0):
    tree = sre_parse.parse(pattern, flags)
    names = {v: k for k, v in tree.state.groupdict.items()}
    out = []

    def walk(seq):
        for op, av in seq:
            if op == sre_c.AT:
                if av in (sre_c.AT_BEGINNING, sre_c.AT_BEGINNING_STRING):
                    out.append(It('BOS'))
                elif av in (sre_c.AT_END, sre_c.AT_END_STRING):
                    out.append(It('EOS'))
                else:
                    raise Unsupported(f'regex anchor {av}')
            elif op == sre_c.LITERAL:
                out.append(It('LIT', chr(av)))
            elif op == sre_c.IN and _is_digit_in(av):
                out.append(It('DIG', 1, 1))
            elif op == sre_c.IN and all(o2 == sre_c.LITERAL for o2, _ in av):
                out.append(It('ALT', [chr(a2) for _, a2 in av]))
            elif op in (sre_c.MAX_REPEAT,):
                lo, hi, sub = av
                sub = list(sub)
                hi = None if hi == sre_c.MAXREPEAT else hi
                if len(sub) == 1 and sub[0][0] == sre_c.IN and _is_digit_in(sub[0][1]):
                    out.append(It('DIG', lo, hi))
                elif len(sub) == 1 and sub[0][0] == sre_c.LITERAL and lo == 0 and hi == 1:
                    out.append(It('OPTLIT', chr(sub[0][1])))
                else:
                    raise Unsupported('regex repetition outside the subset')
            elif op == sre_c.SUBPATTERN:
                gid, add, dele, sub = av
                name = names.get(gid, gid)
                out.append(It('GOPEN', name))
                walk(sub)
                out.append(It('GCLOSE', name))
            elif op == sre_c.BRANCH:
                words = []
                for alt in av[1]:
                    w = ''
                    for o2, a2 in alt:
                        if o2 != sre_c.LITERAL:
                            raise Unsupported('regex alternation of non-literals')
                        w += chr(a2)
                    words.append(w)
                out.append(It('ALT', words))
            else:
                raise Unsupported(f'regex construct {op}')
    walk(tree)
    # merge adjacent DIG items (inside the same group nesting)
    merged = []
    for it in out:
        if it.kind == 'DIG' and merged and merged[-1].kind == 'DIG':
            p = merged[-1]
            p.a += it.a
            p.b = None if (p.b is None or it.b is None) else p.b + it.b
        else:
            merged.append(it)
    return merged, list(tree.state.groupdict.keys())


def tokens_of(parts):
    toks = []
    for p in parts:
        if isinstance(p, str):
            toks.extend(p)
        else:
            toks.append(p)
    return toks


def digits_len_cond(d, lo, hi):
    """z3 condition for lo <= len(piece) <= hi where len = max(width, number of digits of n)"""
    cs = []
    if d.width < lo:
        cs.append(d.n >= 10 ** (lo - 1))
    if hi is not None:
        if d.width > hi:
            return z3.BoolVal(False)
        cs.append(d.n < 10 ** hi)
    return z3.And(*cs) if cs else z3.BoolVal(True)


def match(I, pattern, flags, v, anchored_start=True):
    """Returns None or (groups dict name -> value, consumed whole string?).  Forks on Digits length conditions."""
    from .lib import parts_of, str_from_parts
    from . import strparts
    parts = strparts._parts(v)
    if parts is None:
        raise Unsupported('regex on an unstructured symbolic string')
    items, names = compile_items(pattern, flags)
    toks = tokens_of(parts)
    if any(isinstance(t, OpaqueStr) for t in toks):
        return match_with_opaque(I, items, names, toks)
    results = []      # (conds, groups, end_index)

    def rec(ii, ti, conds, groups, open_):
        if ii == len(items):
            results.append((conds, dict(groups), ti))
            return
        it = items[ii]
        if it.kind == 'BOS':
            if ti == 0:
                rec(ii + 1, ti, conds, groups, open_)
            return
        if it.kind == 'EOS':
            if ti == len(toks):
                rec(ii + 1, ti, conds, groups, open_)
            return
        if it.kind == 'GOPEN':
            rec(ii + 1, ti, conds, groups, open_ + [(it.a, ti)])
            return
        if it.kind == 'GCLOSE':
            name, st = open_[-1]
            g = dict(groups)
            g[name] = str_from_parts([t if not isinstance(t, str) else t for t in _regroup(toks[st:ti])])
            rec(ii + 1, ti, conds, g, open_[:-1])
            return
        if it.kind == 'LIT':
            if ti < len(toks) and toks[ti] == it.a:
                rec(ii + 1, ti + 1, conds, groups, open_)
            return
        if it.kind == 'OPTLIT':
            if ti < len(toks) and toks[ti] == it.a:
                rec(ii + 1, ti + 1, conds, groups, open_)
            rec(ii + 1, ti, conds, groups, open_)
            return
        if it.kind == 'ALT':
            for w in it.a:
                if ''.join(t if isinstance(t, str) else '\0' for t in toks[ti:ti + len(w)]) == w:
                    rec(ii + 1, ti + len(w), conds, groups, open_)
            return
        if it.kind == 'DIG':
            lo, hi = it.a, it.b
            if ti < len(toks) and isinstance(toks[ti], Digits):
                d = toks[ti]
                # the run must end at the piece boundary: next token must not be a digit / Digits
                nxt = toks[ti + 1] if ti + 1 < len(toks) else None
                if isinstance(nxt, Digits) or (isinstance(nxt, str) and nxt.isdigit()):
                    raise Unsupported('digit run spanning several pieces')
                rec(ii + 1, ti + 1, conds + [digits_len_cond(d, lo, hi)], groups, open_)
                if lo == 0:
                    pass    # \d* cannot match empty in front of a digit piece when followed by more digit atoms (merged above)
                return
            # concrete digit characters: greedy
            k = 0
            while ti + k < len(toks) and isinstance(toks[ti + k], str) and toks[ti + k].isdigit() and (hi is None or k < hi):
                k += 1
            if ti + k < len(toks) and isinstance(toks[ti + k], Digits) and (hi is None or k < hi):
                raise Unsupported('digit run spanning literal digits and a Digits piece')
            for kk in range(k, lo - 1, -1):
                rec(ii + 1, ti + kk, conds, groups, open_)
            return
        raise Unsupported('regex item ' + it.kind)

    rec(0, 0, [], {}, [])
    for conds, groups, end in results:
        c = z3.And(*conds) if conds else True
        if isinstance(c, bool):
            ok = c
        else:
            ok = I.branch(c)
        if ok:
            full = {n: groups.get(n) for n in names}
            return full, end
    return None


def _regroup(toks):
    out = []
    for t in toks:
        if isinstance(t, str) and out and isinstance(out[-1], str):
            out[-1] += t
        else:
            out.append(t)
    return out


_AMT = None


def match_with_opaque(I, items, names, toks):
    """Patterns of the form  LIT* GOPEN(amount) DIG OPTLIT('.') DIG GCLOSE GOPEN(unit) ALT GCLOSE  against
    [literals, one opaque piece, literals]: the opaque piece has to be the amount; whether it has the amount's
    shape is the uninterpreted predicate amount_shaped(s) (an environment assumption on str(Decimal))."""
    from .lib import str_from_parts
    global _AMT
    if _AMT is None:
        _AMT = z3.Function('amount_shaped', z3.StringSort(), z3.BoolSort())
    ops = [t for t in toks if isinstance(t, OpaqueStr)]
    if len(ops) != 1:
        raise Unsupported('regex on a string with several opaque pieces')
    oi = toks.index(ops[0])
    kinds = [it.kind for it in items]
    # locate the amount group
    try:
        g0 = next(i for i, it in enumerate(items) if it.kind == 'GOPEN' and it.a == 'amount')
        g1 = next(i for i, it in enumerate(items) if it.kind == 'GCLOSE' and it.a == 'amount')
    except StopIteration:
        raise Unsupported('opaque piece against a pattern without an amount group')
    pre = items[:g0]
    post = items[g1 + 1:]
    ti = 0
    for it in pre:
        if it.kind == 'BOS':
            continue
        if it.kind == 'LIT' and ti < oi and toks[ti] == it.a:
            ti += 1
            continue
        return None
    if ti != oi:
        return None
    groups = {'amount': Sym(STR, ops[0].t)}
    ti = oi + 1
    open_name = None
    for it in post:
        if it.kind == 'GOPEN':
            open_name = it.a
        elif it.kind == 'GCLOSE':
            open_name = None
        elif it.kind == 'ALT':
            hit = None
            for w in it.a:
                if ''.join(t if isinstance(t, str) else '\0' for t in toks[ti:ti + len(w)]) == w:
                    hit = w
                    break
            if hit is None:
                return None
            if open_name:
                groups[open_name] = hit
            ti += len(hit)
        elif it.kind == 'LIT':
            if ti < len(toks) and toks[ti] == it.a:
                ti += 1
            else:
                return None
        elif it.kind == 'EOS':
            if ti != len(toks):
                return None
        else:
            raise Unsupported('opaque-piece matching: item ' + it.kind)
    if not I.branch(_AMT(ops[0].t)):
        return None
    return {n: groups.get(n) for n in names}, ti
