"""Environment values (DESIGN §3.4): culture-configuration objects and regex matches that a contract declares it
quantifies over.  A regex match obeys R1 (match geometry) only; which strings match is never assumed."""
import z3

from .values import *
from .path import Unsupported


class ConfigAttr:
    """An opaque configuration attribute (stable token: the same attribute read twice is the same token)."""
    def __init__(self, path):
        self.path = path

    def __repr__(self):
        return f'<config {self.path}>'


class EnvConfig:
    def __init__(self, name, tables=None, values=None, funcs=None):
        self.name = name
        self.tables = tables or {}
        self.values = values or {}
        self.funcs = funcs or {}
        self.attrs = {}


class EnvFunc:
    def __init__(self, name, fn):
        self.name = name
        self.fn = fn


class CompiledPattern:
    def __init__(self, source, key=None, flags=0):
        self.source = source
        self.key = key or source
        self.flags = flags

    def __repr__(self):
        return f'<pattern {self.key!r:.40}>'


class MatchVal:
    def __init__(self, string, start, end, groups=None, full=False, key=''):
        self.string = string
        self.start = start
        self.end = end
        self.groups = groups if groups is not None else {}
        self.full = full
        self.key = key
        self.declared_only = False


def pattern_key(p):
    if isinstance(p, ConfigAttr):
        return p.path.split('.')[-1]
    if isinstance(p, CompiledPattern):
        return p.key
    if isinstance(p, str):
        return p
    return None


def get_config_attr(I, cfg, name):
    from . import lib
    if name in cfg.attrs:
        return cfg.attrs[name]
    if name in cfg.values:
        v = cfg.values[name]
    elif name in cfg.tables:
        v = cfg.tables[name]
    elif name in cfg.funcs:
        v = cfg.funcs[name]
    else:
        v = ConfigAttr(f'{cfg.name}.{name}')
    cfg.attrs[name] = v
    return v


def fresh_match(I, s, key, full=False, groups=None):
    from . import lib
    if full:
        n = lib.length(I, s)
        return MatchVal(s, 0, n, groups, True, key)
    st = I.fresh(INT, f'm_{key}_start')
    en = I.fresh(INT, f'm_{key}_end')
    n = lib.length(I, s)
    I.p.assume(z3.And(st.t >= 0, st.t <= en.t, en.t <= I.term(n)))
    return MatchVal(s, st, en, groups, False, key)


def regex_call(I, how, pattern, s):
    """regex.search / match / fullmatch (pattern, s) under the contract's regex environment."""
    from . import lib
    s = I.resolve(s)
    if isinstance(s, Unknown):
        return I.unknown('regex on unknown string')
    key = pattern_key(pattern)
    if key is None:
        if isinstance(pattern, Unknown):
            return I.unknown('regex with unknown pattern')
        raise Unsupported(f'regex pattern {pattern!r}')
    src = pattern.source if isinstance(pattern, CompiledPattern) else (pattern if isinstance(pattern, str) else None)
    if isinstance(s, str) and src is not None:
        # closed evaluation with the real engine
        import regex as _rx
        flags = pattern.flags if isinstance(pattern, CompiledPattern) else 0
        m = getattr(_rx, how)(src, s, flags=flags)
        if m is None:
            return None
        mv = MatchVal(s, m.start(), m.end(), dict(m.groupdict()), False, key)
        mv.declared_only = True
        return mv
    if src is not None and isinstance(s, Sym) and s.parts is not None and how in ('match', 'fullmatch', 'search') \
            and src.startswith('^'):
        from . import rxstruct
        flags = pattern.flags if isinstance(pattern, CompiledPattern) else 0
        r = rxstruct.match(I, src, flags, s)
        if r is None:
            return None
        groups, end = r
        mv = MatchVal(s, 0, None, groups, False, key)
        mv.declared_only = True
        return mv
    env = getattr(I.env.current, 'regex_env', None) or {}
    if src is not None and key not in env and '*' not in env:
        raise Unsupported(f'concrete regex {key[:40]!r} applied to an unstructured symbolic string')
    mode = env.get(key, env.get('*', 'any'))
    cnt = I.p.ghost.setdefault(('rxcount', key), [0])
    cnt[0] += 1
    if isinstance(mode, (list, tuple)):
        mode = mode[min(cnt[0] - 1, len(mode) - 1)]
    if isinstance(mode, dict) and 'char_pred' in mode and isinstance(s, SChar) and how == 'search':
        # a one-character subject: whether the pattern matches is an uninterpreted predicate of (string, position)
        from . import specnative
        if I.branch(specnative._pred_at(mode['char_pred'])(s.src.t, I.term(s.idx))):
            return MatchVal(s, 0, 1, None, True, key)
        return None
    groups = None
    extra = mode if isinstance(mode, dict) else {}
    if isinstance(mode, dict):
        groups = {k: (I.lookup_name(v, I._top_frame) if isinstance(v, str) and v.startswith('$') is False and False else v) for k, v in mode.get('groups', {}).items()}
        groups = {k: I.eval_src(v, I._top_frame) if isinstance(v, str) else v for k, v in mode.get('groups', {}).items()}
        if 'when' in mode:
            cond = I.eval_src(mode['when'], I._top_frame)
            mode = 'match' if I.truth(cond) else 'none'
        else:
            mode = mode.get('mode', 'any' if ('end_anchored' in mode or 'assume' in mode) and 'groups' not in mode else 'match')
    if mode == 'none':
        return None
    if mode == 'any':
        b = z3.Bool(I.p.fresh_name(f'rx_{key}_none'))
        if I.branch(b):
            return None
        mode = 'match'
    if how == 'fullmatch' or mode == 'full':
        mv = fresh_match(I, s, key, True, groups)
    else:
        mv = fresh_match(I, s, key, False, groups)
        if how == 'match':
            I.p.assume(I.term(mv.start) == 0)
            mv.start = 0
    if groups is not None:
        mv.declared_only = True
    if extra.get('captures') is not None:
        # repeated groups (regex module: match.captures(name)) declared by the environment, one contract expression per capture
        mv.captures = {k: [I.eval_src(x, I._top_frame) for x in xs] for k, xs in extra['captures'].items()}
    if extra.get('literal') is not None:
        # the match is an occurrence of this fixed word (R1 geometry plus: the matched text is the word)
        lit = extra['literal']
        mv.literal = lit
        I.p.assume(I.term(mv.end) == I.term(mv.start) + len(lit))
        I.p.assume(z3.SubString(I.term(s), I.term(mv.start), len(lit)) == z3.StringVal(lit))
    I.p.ghost.setdefault(('env_matches', key), []).append(mv)      # visible to contract clauses as env_matches(key)
    if extra.get('end_anchored'):
        # R2: the pattern text ends in an unescaped '$' (checked separately as a syntactic obligation)
        I.p.assume(I.term(mv.end) == I.term(lib.length(I, s)))
    if extra.get('assume'):
        from .symex import Frame
        fr = I.cur_frame
        top = getattr(I, '_top_frame', None)
        scope = dict(top.locals) if top is not None else {}      # the contract's parameters are visible too
        scope['M'] = mv
        sub = Frame(fr.func, I.env.spec_module, scope, cls=fr.cls, parent=I.spec_frame(fr))
        I.p.assume(I.formula(I.parse_src(extra['assume']), sub))
    return mv


def match_group(I, m, name):
    from . import lib
    if name == 0 or name is None:
        if m.full:
            return m.string
        g = lib.slice_(I, m.string, lib.SliceVal(m.start, m.end, None))
        if isinstance(g, Sym):
            key = ('grp', g.t.get_id())
            if key not in I.p.ghost:
                I.p.ghost[key] = g.t
                I.p.assume(z3.Length(g.t) == I.term(m.end) - I.term(m.start))      # R1: 0 <= start <= end <= len(string)
        return g
    if name in m.groups:
        return m.groups[name]
    if m.declared_only:
        if isinstance(name, str):
            raise_index = False
            # python: unknown group name -> IndexError; groups of the pattern that did not participate -> None.
            return None
    v = SOpt(z3.Bool(I.p.fresh_name(f'g_{name}_none')), I.fresh(STR, f'g_{name}'))
    m.groups[name] = v
    return v


def match_getitem(I, m, k):
    return match_group(I, m, k)


def match_method(I, m, name, args, kwargs):
    if name == 'start':
        if args and args[0] != 0:
            raise Unsupported('match.start(group)')
        return m.start
    if name == 'end':
        if args and args[0] != 0:
            raise Unsupported('match.end(group)')
        return m.end
    if name == 'span':
        return (m.start, m.end)
    if name == 'group':
        if (not args or args[0] == 0) and getattr(m, 'literal', None) is not None:
            return m.literal          # the environment declares the matched text itself (a fixed word)
        if len(args) > 1:
            return tuple(match_group(I, m, a) for a in args)
        return match_group(I, m, args[0] if args else 0)
    if name == 'groupdict':
        return dict(m.groups)
    if name == 'captures' and getattr(m, 'captures', None) is not None and len(args) == 1 and args[0] in m.captures:
        return list(m.captures[args[0]])
    if name == 'captures' or name == 'groups':
        raise Unsupported('match.' + name)
    raise Unsupported('match.' + name)
