"""Spec-level primitives implemented in the engine, and models of str functions that need axioms."""
import z3

from .values import *
from .path import Unsupported
from . import lib


def _isdigits(I, a, k):
    v = I.resolve(a[0])
    if isinstance(v, str):
        return v.isascii() and v.isdigit()
    return lib.wrap_bool(lib._ISDIG(I.term(v)))


def _total_seconds(I, a, k):
    from . import libdt
    return Sym(INT, libdt.dt_total(I, a[0]))


def _ordinal_of(I, a, k):
    v = I.resolve(a[0])
    return v.ord


def _sec_of_day(I, a, k):
    v = I.resolve(a[0])
    return v.sec


def _is_none(I, a, k):
    v = a[0]
    if isinstance(v, SOpt):
        return lib.wrap_bool(v.isnone)
    return v is None


def _date_of_ordinal(I, a, k):
    v = I.resolve(a[0])
    if isinstance(v, int):
        if not 1 <= v <= 3652059:
            from .symex import PyExc
            raise PyExc('OverflowError')
        return SDateTime(v, 0)
    I.p.assume(z3.And(v.t >= 1, v.t <= 3652059))
    return SDateTime(v, 0)


def _ordinal(I, a, k):
    from . import libdt
    y, m, d = [I.resolve(x) for x in a]
    if all(isinstance(x, int) for x in (y, m, d)):
        import datetime
        try:
            return datetime.date(y, m, d).toordinal()
        except ValueError:
            pass
    return Sym(INT, libdt.ord_term(I, I.term(y), I.term(m), I.term(d)))


def _date_with(I, a, k):
    o, sec = I.resolve(a[0]), I.resolve(a[1])
    return SDateTime(o, sec)


def _amount_shaped(I, a, k):
    from . import rxstruct
    if rxstruct._AMT is None:
        rxstruct._AMT = z3.Function('amount_shaped', z3.StringSort(), z3.BoolSort())
    v = I.resolve(a[0])
    if isinstance(v, str):
        import re
        return re.fullmatch(r'\d*\.?\d+', v) is not None
    return lib.wrap_bool(rxstruct._AMT(I.term(v)))


def _reparse_timex(I, a, k):
    cls = I.repo.find('Python/libraries/datatypes-timex-expression/datatypes_timex_expression/timex.py::Timex')
    return I.instantiate(cls, [], {'timex': a[0]})


def _model_cache(I, a, k):
    for key, v in I.gcache.items():
        if key[0] == 'cls' and key[2] == 'ModelFactory' and key[3] == '__cache':
            return v
    cls = I.repo.find('Python/libraries/recognizers-text/recognizers_text/model.py::ModelFactory')
    return I.class_attr(cls, '__cache')


def _repo_const(I, a, k):
    """repo_const(relpath::Class, attr): the class attribute as the real source defines it"""
    cls = I.repo.find(a[0])
    return I.getattr(ClassVal(cls), a[1])


def _char_pred(I, a, k):
    """char_pred(name, c): an uninterpreted character predicate; for a character taken from a string by index it is
    a function of (string, position), like the built-in character classes"""
    c = I.resolve(a[1])
    if isinstance(c, SChar):
        return lib.wrap_bool(_pred_at(a[0])(c.src.t, I.term(c.idx)))
    f = _PRED.get(a[0])
    if f is None:
        f = z3.Function(f'py_{a[0]}', z3.StringSort(), z3.BoolSort())
        _PRED[a[0]] = f
    return lib.wrap_bool(f(I.term(c)))


def _exact_div(I, a, k):
    """exact_div(a, b): real division (natively an exact Fraction)"""
    import ast as _ast
    return I.binop(_ast.Div, a[0], a[1])


def _ghost_fill(I, a, k):
    """fill(arr, lo, hi, v): the array equal to arr except that positions lo <= p < hi hold v (ghost code only)"""
    arr, lo, hi, v = [I.resolve(x) for x in a]
    if not isinstance(arr, SArr):
        raise Unsupported('fill on a non-array ghost')
    new = z3.Const(I.p.fresh_name('ghost_arr'), arr.arr.sort())
    q = z3.Int(I.p.fresh_name('q_fill'))
    tlo, thi, tv = I.term(lo), I.term(hi), I.term(v)
    I.p.assume(z3.ForAll([q], z3.Select(new, q) == z3.If(z3.And(tlo <= q, q < thi), tv, z3.Select(arr.arr, q))))
    return SArr(new, arr.n, arr.elem)


def _env_matches(I, a, k):
    """the regex matches the environment produced for a pattern key on this path (ghost)"""
    return list(I.p.ghost.get(('env_matches', a[0]), []))


def _build_trie(I, a, k):
    """a TrieTree built by the REAL insert() code from the given token lists and ids"""
    cls = I.repo.find('Python/libraries/recognizers-text/recognizers_text/matcher/trie_tree.py::TrieTree')
    t = I.instantiate(cls, [], {})
    ins = I.repo.find_method(cls, 'insert')
    from .values import FuncVal
    for phrase, pid in zip(a[0], a[1]):
        I.call_func(FuncVal(ins, t, ins.cls), [list(phrase), pid], {})
    return t


def _build_string_matcher(I, a, k):
    """a StringMatcher (trie strategy, simple tokenizer) initialised by the REAL init() code with the given phrases"""
    cls = I.repo.find('Python/libraries/recognizers-text/recognizers_text/matcher/string_matcher.py::StringMatcher')
    m = I.instantiate(cls, [], {})
    ini = I.repo.find_method(cls, 'init')
    from .values import FuncVal
    vals = a[0]
    I.call_func(FuncVal(ini, m, ini.cls), [dict(vals) if isinstance(vals, dict) else list(vals)], {})
    return m


def _digit_char(I, a, k):
    """the one-character string of a digit value 0..9"""
    v = I.resolve(a[0])
    if isinstance(v, int):
        return str(v)
    I.p.assume(z3.And(v.t >= 0, v.t <= 9))
    t = lib.istr(I, v.t)
    return Sym(STR, t, parts=[Digits(v.t, 1, t, single=True)])


def _hex_char(I, a, k):
    """the one-character lower-case hexadecimal digit of a value 0..15"""
    v = I.resolve(a[0])
    if isinstance(v, int):
        return '0123456789abcdef'[v]
    I.p.assume(z3.And(v.t >= 0, v.t <= 15))
    t = z3.SubString(z3.StringVal('0123456789abcdef'), v.t, 1)
    return Sym(STR, t, parts=[Digits(v.t, 1, t, single=True, alphabet='0123456789abcdef')])


def _letter_char(I, a, k):
    """the one-character lower-case ASCII letter number v (0 = a ... 25 = z)"""
    v = I.resolve(a[0])
    alpha = 'abcdefghijklmnopqrstuvwxyz'
    if isinstance(v, int):
        return alpha[v]
    I.p.assume(z3.And(v.t >= 0, v.t <= 25))
    t = z3.SubString(z3.StringVal(alpha), v.t, 1)
    return Sym(STR, t, parts=[Digits(v.t, 1, t, single=True, alphabet=alpha)])


def _make_unit_value(I, a, k):
    from .libb import NT
    t = NT([a[0], a[1]])
    t._fields, t._name = ('number', 'unit'), 'UnitValue'
    return t


NATIVE = {
    'exact_div': _exact_div,
    'char_pred': _char_pred,
    'repo_const': _repo_const,
    'make_unit_value': _make_unit_value,
    'letter_char': _letter_char,
    'hex_char': _hex_char,
    'digit_char': _digit_char,
    'build_string_matcher': _build_string_matcher,
    'build_trie': _build_trie,
    'env_matches': _env_matches,
    'fill': _ghost_fill,
    'model_cache': _model_cache,
    'amount_shaped': _amount_shaped,
    'reparse_timex': _reparse_timex,
    'date_with': _date_with,
    'ordinal': _ordinal,
    'date_of_ordinal': _date_of_ordinal,
    'isdigits': _isdigits,
    'total_seconds_of': _total_seconds,
    'ordinal_of': _ordinal_of,
    'sec_of_day': _sec_of_day,
}


def lookup(name):
    if name in NATIVE:
        return Builtin(name, NATIVE[name])
    return None


# str.lower / strip etc.: uninterpreted with the axioms of DESIGN §4.4 instantiated on use
_LOWER = z3.Function('py_lower', z3.StringSort(), z3.StringSort())
_UPPER = z3.Function('py_upper', z3.StringSort(), z3.StringSort())
_STRIP = z3.Function('py_strip', z3.StringSort(), z3.StringSort())


_REPL1 = z3.Function('py_replace1', z3.StringSort(), z3.StringSort(), z3.StringSort(), z3.StringSort())
_EXPAND = z3.Function('lower_expansion', z3.StringSort(), z3.IntSort())
_EXPANDING = {}
_CASEFOLD = z3.Function('py_casefold', z3.StringSort(), z3.StringSort())
_EXPAND_OF = {'upper': z3.Function('upper_expansion', z3.StringSort(), z3.IntSort()),
              'casefold': z3.Function('casefold_expansion', z3.StringSort(), z3.IntSort())}


def expanding_code_points(method='lower'):
    """code points whose str.lower() (upper / casefold) is longer than one character: computed from the running CPython"""
    if method not in _EXPANDING:
        _EXPANDING[method] = [chr(c) for c in range(0x110000) if not (0xD800 <= c <= 0xDFFF) and len(getattr(chr(c), method)()) != 1]
    return _EXPANDING[method]


def replace1(I, s, a, b):
    """s.replace(a, b) with two one-character literals: a pointwise map, hence length preserving"""
    t = I.term(s)
    r = _REPL1(t, z3.StringVal(a), z3.StringVal(b))
    key = ('repl1', r.get_id())
    if key not in I.p.ghost:
        I.p.ghost[key] = r
        keep = [z3.Contains(r, z3.StringVal(e)) == z3.Contains(t, z3.StringVal(e)) for e in expanding_code_points() if e not in (a, b)]
        I.p.assume(z3.And(z3.Length(r) == z3.Length(t), z3.Implies(z3.Not(z3.Contains(t, z3.StringVal(a))), r == t), *keep))
    return Sym(STR, r)


_ASCII_NO_UPPER = z3.Union(z3.Range(' ', '@'), z3.Range('[', '~'))
_NO_UPPER_ASCII = z3.Star(_ASCII_NO_UPPER)
_ASCII_GRAPH = z3.Range('!', '~')
_NO_EDGE_SPACE_ASCII = z3.Union(z3.Re(''), _ASCII_GRAPH,
                                z3.Concat(_ASCII_GRAPH, z3.Star(z3.Range(' ', '~')), _ASCII_GRAPH))


def str_fun(I, name, s, args):
    t = I.term(s)
    if name == 'lower':
        r = _LOWER(t)
        key = ('lower', t.get_id())
        if key not in I.p.ghost:
            I.p.ghost[key] = t     # pins the term (z3 reuses ids)
            # idempotent, length preserving except for U+0130 (not modelled here: see C01), identity on strings of
            # ASCII characters without upper-case letters
            exp = expanding_code_points()
            has = z3.Or(*[z3.Contains(t, z3.StringVal(c)) for c in exp]) if exp else z3.BoolVal(False)
            I.p.assume(z3.And(_LOWER(r) == r, z3.Implies(z3.InRe(t, _NO_UPPER_ASCII), r == t),
                              z3.Length(r) == z3.Length(t) + _EXPAND(t), _EXPAND(t) >= 0,
                              has == (_EXPAND(t) >= 1)))
        return Sym(STR, r)
    if name in ('upper', 'casefold'):
        f = _UPPER if name == 'upper' else _CASEFOLD
        r = f(t)
        key = (name, t.get_id())
        if key not in I.p.ghost:
            I.p.ghost[key] = t
            exp = expanding_code_points(name)
            ex = _EXPAND_OF[name]
            has = z3.Or(*[z3.Contains(t, z3.StringVal(c)) for c in exp[:400]]) if exp else z3.BoolVal(False)
            I.p.assume(z3.And(z3.Length(r) == z3.Length(t) + ex(t), ex(t) >= 0, z3.Implies(ex(t) >= 1, has) if len(exp) <= 400 else z3.BoolVal(True),
                              z3.Implies(has, ex(t) >= 1)))
        return Sym(STR, r)
    if name == 'strip' and not args:
        r = _STRIP(t)
        key = ('strip', t.get_id())
        if key not in I.p.ghost:
            I.p.ghost[key] = t     # pins the term (z3 reuses ids)
            I.p.assume(z3.And(z3.Contains(t, r), z3.Length(r) <= z3.Length(t), _STRIP(r) == r,
                              z3.Implies(z3.InRe(t, _NO_EDGE_SPACE_ASCII), r == t)))
        return Sym(STR, r)
    if name in ('lstrip', 'rstrip', 'strip') and len(args) <= 1 and (not args or isinstance(args[0], str)):
        f = z3.Function(f'py_{name}_chars', z3.StringSort(), z3.StringSort(), z3.StringSort())
        r = f(t, z3.StringVal(args[0] if args else ' '))
        key = (name, r.get_id())
        if key not in I.p.ghost:
            I.p.ghost[key] = r
            rel = z3.SuffixOf(r, t) if name == 'lstrip' else (z3.PrefixOf(r, t) if name == 'rstrip' else z3.Contains(t, r))
            I.p.assume(z3.And(rel, z3.Length(r) <= z3.Length(t)))
        return Sym(STR, r)
    raise Unsupported(f'str.{name} on symbolic string')


_PRED_AT = {}
_PRED = {}
_CODE_AT = z3.Function('code_at', z3.StringSort(), z3.IntSort(), z3.IntSort())


def str_pred(I, name, s):
    """isspace/isdigit/isalpha/...: uninterpreted predicates (DESIGN 4.4); for a character taken from a string by
    index the predicate is a function of (string, position)"""
    if isinstance(s, SChar):
        return lib.wrap_bool(_pred_at(name)(s.src.t, I.term(s.idx)))
    f = _PRED.get(name)
    if f is None:
        f = z3.Function(f'py_{name}', z3.StringSort(), z3.BoolSort())
        _PRED[name] = f
    t = I.term(s)
    key = ('pred', name, t.get_id())
    if key not in I.p.ghost and name in ('isalnum', 'isalpha', 'isdigit', 'isspace', 'isnumeric', 'isdecimal'):
        I.p.ghost[key] = t
        # whole-string predicate == non-empty and the per-position predicate holds everywhere (Python's definition)
        at = _pred_at(name)
        q = z3.Int(I.p.fresh_name('q_pred'))
        I.p.assume(f(t) == z3.And(z3.Length(t) > 0, z3.ForAll([q], z3.Implies(z3.And(q >= 0, q < z3.Length(t)), at(t, q)))))
        if name == 'isalnum':
            q2 = z3.Int(I.p.fresh_name('q_pred'))
            I.p.assume(z3.ForAll([q2], z3.Implies(z3.And(q2 >= 0, q2 < z3.Length(t)),
                                                  z3.And(at(t, q2) == z3.Or(_pred_at('isalpha')(t, q2), _pred_at('isdigit')(t, q2),
                                                                            _pred_at('isothernumeric')(t, q2)),
                                                         z3.Implies(at(t, q2), z3.Not(_pred_at('isspace')(t, q2)))))))
    return lib.wrap_bool(f(t))


def _pred_at(name):
    f = _PRED_AT.get(name)
    if f is None:
        f = z3.Function(f'{name}_at', z3.StringSort(), z3.IntSort(), z3.BoolSort())
        _PRED_AT[name] = f
    return f


def repair_string(model, t):
    """Rebuild a concrete string whose characters realise the model's per-position character facts (the solver's own
    string value is unrelated to the uninterpreted per-position predicates)."""
    n = model.eval(z3.Length(t), model_completion=True).as_long()
    out = []
    for p in range(min(n, 64)):
        def pv(name):
            f = _PRED_AT.get(name)
            return f is not None and z3.is_true(model.eval(f(t, z3.IntVal(p)), model_completion=True))
        code = model.eval(_CODE_AT(t, z3.IntVal(p)), model_completion=True).as_long()
        from_ranges = [(0x4E00, 0x9FBF), (0x3400, 0x4DBF), (0x3040, 0x309F), (0x30A0, 0x30FF), (0xFF66, 0xFF9D),
                       (0xAC00, 0xD7AF), (0x1100, 0x11FF), (0x3130, 0x318F), (0xFFB0, 0xFFDC)]
        cjk = any(lo <= code <= hi for lo, hi in from_ranges)
        if pv('isemoji'):
            ch = '\U0001F44C'       # an emoji (which the default token pattern [^\\w\\d] also treats as a separator)
        elif pv('isspace'):
            ch = ' '
        elif cjk:
            ch = chr(code) if chr(code).isalpha() == pv('isalpha') else '\u4e2d'
        elif pv('isdigit'):
            ch = '7'
        elif pv('isalpha'):
            ch = 'a'
        elif pv('isothernumeric'):
            ch = '\u00bd'
        else:
            ch = '$'
        out.append(ch)
    return ''.join(out)


def char_code(I, s):
    if isinstance(s, SChar):
        t = _CODE_AT(s.src.t, I.term(s.idx))
        return Sym(INT, t)
    return Sym(INT, z3.StrToCode(I.term(s)))
