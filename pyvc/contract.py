"""Contracts (sidecars), the verification environment, and the per-contract verification driver."""
import ast
import os
import time
import traceback

import z3

from .values import *
from .path import Path, PathEnd, Unsupported, explore
from .source import Repo, ModuleInfo, FuncInfo
from .symex import Interp, Frame, PyExc, ReturnSig, LoopSpec
from . import lib, sorts, solve

VERIF = os.path.dirname(os.path.dirname(os.path.abspath(__file__)))


class Contract:
    def __init__(self, id, target, props, params=None, requires=(), ensures=(), raises=None, loops=None,
                 returns=None, modular=(), unroll=0, max_paths=3000, note='', setup=None, ghost=None,
                 as_callee=False, allow_raise=(), known=None, max_recursion=1, decorators=(), regex_env=None, ghost_after=None, modifies=(), bounded=None, assumed=None, native_ensures=()):
        self.id = id
        self.target = target
        self.props = list(props)
        self.params = params or {}
        self.requires = list(requires)
        self.ensures = list(ensures)          # (name, src)
        self.raises = raises or {}            # etype -> src condition under which the exception is the specified behaviour
        self.allow_raise = list(allow_raise)  # etypes that may escape unconditionally (documented behaviour)
        self.loops = loops or {}
        self.returns = returns
        self.modular = list(modular)          # idents of callees to be used through their contracts
        self.unroll = unroll
        self.max_paths = max_paths
        self.note = note
        self.setup = setup                    # optional python callable(I, frame_locals) run before the call
        self.as_callee = as_callee
        self.known = known or []
        self.max_recursion = max_recursion
        self.decorators = list(decorators)
        self.regex_env = regex_env or {}
        self.native_ensures = list(native_ensures)      # clauses evaluated only natively (no ghost witnesses): used by the native probe
        self.ghost_after = ghost_after or {}
        self.repair_strings = False
        self.assumed = assumed     # text: an ASSUMED contract (used only at modular call sites, never verified, listed as assumption)
        self.bounded = bounded     # text: this contract is a BOUNDED stand-in (stated bound); never counted as proved
        self.modifies = list(modifies)     # parameters (lists) the function mutates in place: havocked at modular call sites   # statement-text pattern -> ghost code run after matching statements


class SpecModule:
    """All files of /verif/specs aggregated into one namespace (spec functions are interpreted from source by
    the same engine, and executed natively on replay)."""
    def __init__(self, repo):
        self.dotted = 'specs'
        self.relpath = 'verif/specs'
        self.classes, self.functions, self.assigns, self.imports, self.star_imports = {}, {}, {}, {}, []
        d = os.path.join(VERIF, 'specs')
        for fn in sorted(os.listdir(d)):
            if fn.endswith('.py') and fn not in ('__init__.py', 'native.py'):
                m = ModuleInfo(os.path.join(d, fn), 'specs.' + fn[:-3], repo)
                m.relpath = 'verif/specs/' + fn
                for k, v in m.functions.items():
                    v.module = self
                    self.functions[k] = v
                self.assigns.update(m.assigns)

    def _resolve_relative(self, module, level):
        return module


class VerifEnv:
    def __init__(self, contracts):
        self.repo = Repo()
        self.contracts = {c.id: c for c in contracts}
        self.by_target = {}
        for c in contracts:
            self.by_target.setdefault(c.target, c)
        self.loop_specs = {}
        for c in contracts:
            for ordinal, spec in c.loops.items():
                if ordinal == '__no_global__':
                    continue
                if isinstance(ordinal, tuple):
                    self.loop_specs[ordinal] = spec
                else:
                    self.loop_specs[(c.target, ordinal)] = spec
        self.parse_cache = {}
        self.ghost_hooks = {}
        for c in contracts:
            if c.ghost_after:
                self.ghost_hooks.setdefault(c.target, {}).update(c.ghost_after)
        self.spec_module = SpecModule(self.repo)
        self.unroll = 0
        self.max_recursion = 1
        self.transparent_decorators = set()
        self.current = None

    def stmt_text(self, fi, st):
        key = ('seg', id(st))
        t = self.parse_cache.get(key)
        if t is None:
            t = ast.get_source_segment(fi.module.text, st) or ''
            self.parse_cache[key] = t
        return t

    # ---- hooks used by the interpreter
    def spec_builtin(self, name):
        from . import specnative
        return specnative.lookup(name)

    def str_fun(self, I, name, s, args):
        from . import specnative
        return specnative.str_fun(I, name, s, args)

    def str_pred(self, I, name, s):
        from . import specnative
        return specnative.str_pred(I, name, s)

    def callee_contract(self, ident, I):
        cur = self.current
        if cur is None or I.depth == 0:
            return None
        for ent in cur.modular:
            if ent.startswith('id:') and self.contracts.get(ent[3:]) is not None and self.contracts[ent[3:]].target == ident:
                return self.contracts[ent[3:]]
        if ident in cur.modular:
            c = self.by_target.get(ident)
            if c is None:
                raise Unsupported(f'modular callee {ident} has no contract')
            return c
        return None

    def apply_contract(self, I, c, fi, args, kwargs):
        """Modular call: assert requires, havoc, assume ensures."""
        fr = Frame(fi, fi.module, {}, cls=fi.cls)
        I.bind_params(fi.node.args, args, kwargs, fr, Frame(None, fi.module, {}, cls=fi.cls))
        cname = f'{I.callstack[-1].split("::")[-1] if I.callstack else "top"}/call:{fi.qualname}'
        for pname, srt in c.params.items():
            if pname not in fr.locals:
                raise Unsupported(f'contract {c.id} declares parameter {pname} which the callee does not have')
            g = sorts.conforms(I, srt, fr.locals[pname])
            I.p.oblige(f'{cname}/pre:sort:{pname}', 'pre@call', fi.node.lineno, g,
                       note=f'argument {pname} within the declared domain of contract {c.id}', func=fi.ident)
        for k, src in enumerate(c.requires):
            g = I.formula_src(src, fr)
            I.p.oblige(f'{cname}/pre#{k}', 'pre@call', fi.node.lineno, g, note=src, func=fi.ident)
        if c.returns is None and not c.modifies:
            raise Unsupported(f'contract {c.id} has no declared result sort; cannot be used as a callee')
        if isinstance(c.returns, sorts.Expr):      # result given as an expression over the callee's parameters
            res = I.eval_src(c.returns.src, fr)
        else:
            res = sorts.build(I, c.returns, 'ret_' + fi.name) if c.returns is not None else None
        oldf = Frame(fi, fi.module, {k: snapshot(v) for k, v in fr.locals.items()})
        for mname in c.modifies:
            lib.fresh_like(I, fr.locals[mname], 'mod_' + mname)      # in place for symbolic lists
        fr.locals['result'] = res
        fr.locals['__old__'] = oldf
        # ghost witnesses of the callee's postcondition exist (it was proved with them): fresh values stand for them
        for spec in c.loops.values():
            for gname, gsort in getattr(spec, 'ghost', {}).items():
                if gname not in fr.locals:
                    fr.locals[gname] = sorts.build(I, gsort, 'ghost_' + gname)
        for name, src in c.ensures:
            I.p.assume(I.formula_src(src, fr))
        return res


class ObResult:
    def __init__(self, name, kind, func, line, note):
        self.name, self.kind, self.func, self.line, self.note = name, kind, func, line, note
        self.instances = 0
        self.verdict = 'unsat'
        self.backends = {}
        self.seconds = 0.0
        self.model = None
        self.tainted_refutation = False
        self.reason = ''
        self.sample = None
        self.witness = None
        self.witness_error = None


class ContractResult:
    def __init__(self, contract):
        self.contract = contract
        self.obligations = {}        # name -> ObResult
        self.paths = 0
        self.complete = True
        self.unsupported = []        # engine limitations met (path-level)
        self.crash = None
        self.func_sha = None
        self.func_ident = contract.target
        self.abstracted = []
        self.notes = []
        self.bounded = []
        self.seconds = 0.0
        self.reach = {}

    @property
    def status(self):
        """proved | refuted | undecided | crash"""
        if self.crash:
            return 'crash'
        if any(o.verdict == 'sat' and not o.tainted_refutation for o in self.obligations.values()):
            return 'refuted'
        if self.unsupported or not self.complete or any(o.verdict != 'unsat' for o in self.obligations.values()):
            return 'undecided'
        if not self.obligations:
            return 'undecided'
        return 'proved'


def _datetimes_in(v, depth=0):
    if isinstance(v, SDateTime):
        yield v
    elif isinstance(v, Obj) and depth < 4:
        for x in v.fields.values():
            yield from _datetimes_in(x, depth + 1)
    elif isinstance(v, (list, tuple)) and depth < 4:
        for x in v:
            yield from _datetimes_in(x, depth + 1)
    elif isinstance(v, SOpt):
        yield from _datetimes_in(v.val, depth + 1)


def snapshot(v, memo=None):
    memo = {} if memo is None else memo
    if isinstance(v, Obj):
        if id(v) in memo:
            return memo[id(v)]
        o = Obj(v.cls, {}, label=v.label + '@old')
        memo[id(v)] = o
        for k, x in v.fields.items():
            o.fields[k] = snapshot(x, memo)
        return o
    if isinstance(v, SSeq):
        return SSeq(v.t, v.elem)
    if isinstance(v, SArr):
        return SArr(v.arr, v.n, v.elem, v.arr2)
    if isinstance(v, SRecList):
        return SRecList(v.n, dict(v.fields), v.cls)
    if isinstance(v, list):
        return [snapshot(x, memo) for x in v]
    if isinstance(v, dict):
        return {k: snapshot(x, memo) for k, x in v.items()}
    if isinstance(v, tuple):
        return tuple(snapshot(x, memo) for x in v)
    return v


def verify(env, c, thorough=False):
    res = ContractResult(c)
    t0 = time.time()
    try:
        fi = env.repo.find(c.target)
    except KeyError as e:
        res.unsupported.append(f'contract does not attach: {e}')
        return res
    res.func_sha = fi.sha()
    env.current = c
    env.unroll = c.unroll
    env.max_recursion = c.max_recursion
    env.transparent_decorators = set(c.decorators)
    all_obs = []

    def run(p):
        I = Interp(env.repo, p, env)
        fr_locals = {}
        pre = Frame(fi, fi.module, fr_locals, cls=fi.cls)
        I._top_frame = pre
        try:
            for name, srt in c.params.items():
                if isinstance(srt, sorts.Expr):
                    fr_locals[name] = I.eval_src(srt.src, pre)
                else:
                    fr_locals[name] = sorts.build(I, srt, name)
            if c.setup is not None:
                c.setup(I, fr_locals)
            for src in c.requires:
                p.assume(I.formula_src(src, pre))
        except Unsupported as e:
            res.unsupported.append(f'path {p.path_id} (building inputs): {e}')
            return
        except PyExc as e:
            if p.solver.check() != z3.unsat:
                res.unsupported.append(f'path {p.path_id}: building the declared inputs raised {e}')
            return
        if c.requires and p.solver.check() == z3.unsat:
            raise PathEnd()      # this combination of input shapes is excluded by the precondition
        old = Frame(fi, fi.module, {k: snapshot(v) for k, v in fr_locals.items()})
        p.inputs = old.locals
        fv = FuncVal(fi, None, fi.cls)
        args = []
        kwargs = {}
        names = [a.arg for a in fi.node.args.posonlyargs + fi.node.args.args]
        for name, v in fr_locals.items():
            if name in names or name in [a.arg for a in fi.node.args.kwonlyargs]:
                kwargs[name] = v
        if fi.kind == 'classmethod' and names and names[0] not in kwargs:
            kwargs[names[0]] = ClassVal(fi.cls)
        raised = None
        result = None
        try:
            I.depth = 0
            I.top_old = old
            result = I.call_func(fv, args, kwargs)
            if isinstance(c.returns, sorts.RecList) and isinstance(result, list) and all(isinstance(x, Obj) for x in result):
                # a concrete list of records where the contract speaks about a record list: same value, array view
                # (so that clauses may index it with symbolic positions)
                rl = sorts.build(I, c.returns, 'ret_view')
                for i_, x in enumerate(result):
                    lib.reclist_store(I, rl, z3.IntVal(i_), x)
                rl.n = len(result)
                result = rl
        except PyExc as e:
            raised = e
        except Unsupported as e:
            res.unsupported.append(f'path {p.path_id}: {e}')
            res.bounded.extend(p.bounded)
            return
        res.notes.extend(n for n in p.notes if n not in res.notes)
        post = Frame(fi, fi.module, dict(fr_locals), cls=fi.cls)
        post.locals.update(getattr(I, 'top_ghosts', None) or {})
        # a path that leaves before the loop that declares a ghost witness: the witness is arbitrary on that path
        for spec in c.loops.values():
            for gname, gsort in getattr(spec, 'ghost', {}).items():
                if gname not in post.locals:
                    post.locals[gname] = sorts.build(I, gsort, 'ghost_' + gname)
        post.locals['__old__'] = old
        try:
            if raised is not None:
                et = raised.etype
                if et in c.allow_raise:
                    return
                cond = None
                for k, src in c.raises.items():
                    from .symex import exc_matches
                    if exc_matches(et, k):
                        cond = src
                if cond is None:
                    p.oblige(f'{fi.qualname}/raises:{et}', 'raises', fi.node.lineno, False,
                             note=f'{raised}', func=fi.ident)
                else:
                    g = I.formula_src(cond, post)
                    p.oblige(f'{fi.qualname}/raises:{et}', 'raises', fi.node.lineno, g, note=cond, func=fi.ident)
                return
            post.locals['__return__' if 'result' in c.params else 'result'] = result
            for name, src in c.ensures:
                g = I.formula_src(src, post)
                p.oblige(f'{fi.qualname}/post:{name}', 'post', fi.node.lineno, g, note=src, func=fi.ident)
        except Unsupported as e:
            res.unsupported.append(f'path {p.path_id} (contract clause): {e}')
        except PyExc as e:
            if p.solver.check() == z3.unsat:
                return
            res.unsupported.append(f'path {p.path_id}: contract clause raised {e}')

    try:
        paths, complete = explore(run, c.max_paths)
    except Exception:
        res.crash = traceback.format_exc()
        return res
    res.paths = len(paths)
    res.complete = complete
    if not complete:
        res.unsupported.append(f'path budget {c.max_paths} exhausted')
    for p in paths:
        all_obs.extend(p.obligations)
        for t in p.taints:
            if t not in res.abstracted:
                res.abstracted.append(t)
    # vacuity: some path that reaches a postcondition / permitted exception must be feasible
    posts = [ob for ob in all_obs if ob.kind in ('post', 'raises')]
    if posts:
        seen_sat = False
        seen_unknown = False
        for ob in posts[:12]:
            sv = z3.Solver()
            sv.set('timeout', 1500)
            for t in ob.pc:
                sv.add(t)
            rr = sv.check()
            if rr == z3.sat:
                seen_sat = True
                break
            if rr == z3.unknown:
                seen_unknown = True
        if not seen_sat and not seen_unknown:
            import os as _os
            if _os.environ.get('PYVC_DEBUG_VACUOUS'):
                for ob in posts[:2]:
                    print('VACUOUS PC:', [str(t)[:300] for t in ob.pc])
            res.unsupported.append('vacuous: no feasible path reaches the postcondition (contradictory requires?)')
        res.reach = dict(feasible_post_path=seen_sat, unknown=seen_unknown)
    elif not res.unsupported:
        res.unsupported.append('vacuous: no path reaches a postcondition')
    results = solve.discharge(all_obs, thorough)
    # counterexample search for undecided obligations: a model found under *narrowed* input domains (datetimes within a
    # few years around 2020) is a counterexample for the whole domain; nothing is concluded if none is found
    retry = [i for i, r in enumerate(results) if r.verdict == 'unknown' and not all_obs[i].tainted]
    if retry:
        import datetime as _dtm
        narrowed = []
        for i in retry[:24]:
            ob = all_obs[i]
            extra = []
            for v in paths[ob.path_id].inputs.values():
                for d in _datetimes_in(v):
                    if isinstance(d.ord, Sym):
                        extra.append(z3.And(d.ord.t >= _dtm.date(2019, 12, 20).toordinal(), d.ord.t <= _dtm.date(2021, 1, 12).toordinal()))
            if extra:
                from .path import Obligation
                narrowed.append((i, Obligation(ob.name, ob.kind, ob.line, list(ob.pc) + extra, ob.goal, ob.tainted, ob.path_id, ob.note, ob.func)))
        if narrowed:
            nres = solve.discharge([o for _, o in narrowed], thorough)
            for (i, _), r in zip(narrowed, nres):
                if r.verdict == 'sat':
                    results[i] = r
        # second counterexample search: pin the top-level integer inputs to concrete values (a model found with pinned inputs
        # is a counterexample for the whole domain; string-heavy VCs are often only decidable this way)
        still = [i for i in retry[:12] if results[i].verdict == 'unknown']
        if still:
            from .path import Obligation
            import random as _rnd
            rnd = _rnd.Random(7)
            pinned = []
            for i in still:
                ob = all_obs[i]
                ints = [v for v in paths[ob.path_id].inputs.values() if isinstance(v, Sym) and v.kind == INT]
                if not ints:
                    continue
                for attempt in range(2):
                    sv = z3.Solver()
                    sv.set('timeout', 2000)
                    for t in ob.pc:
                        if not z3.is_quantifier(t):
                            sv.add(t)
                    extra = []
                    for v in ints:
                        sv.push()
                        cand = z3.IntVal(rnd.choice([0, 1, 2, 3, 5, 7, 11, 12, 13, 19, 23, 24, 25]))
                        sv.add(v.t == cand)
                        if sv.check() == z3.sat:
                            extra.append(v.t == cand)
                        else:
                            sv.pop()
                    if extra:
                        pinned.append((i, Obligation(ob.name, ob.kind, ob.line, list(ob.pc) + extra, ob.goal, ob.tainted, ob.path_id, ob.note, ob.func)))
            if pinned:
                pres = solve.discharge([o for _, o in pinned], thorough)
                for (i, _), r in zip(pinned, pres):
                    if r.verdict == 'sat' and results[i].verdict == 'unknown':
                        results[i] = r
    for ob, r in zip(all_obs, results):
        o = res.obligations.get(ob.name)
        if o is None:
            o = ObResult(ob.name, ob.kind, ob.func, ob.line, ob.note)
            res.obligations[ob.name] = o
        o.instances += 1
        o.seconds += r.seconds
        o.backends[r.backend] = o.backends.get(r.backend, 0) + 1
        if o.sample is None:
            try:
                o.sample = f'(and {" ".join(x.sexpr() for x in ob.pc[-3:])}) => {ob.goal.sexpr()}'[:600]
            except Exception:
                o.sample = ''
        if r.verdict == 'sat':
            if ob.tainted:
                if o.verdict == 'unsat':
                    o.verdict = 'unknown'
                o.tainted_refutation = True
                o.reason = 'refuted only on a path through engine havoc (tainted)'
                if o.witness is None and r.model_ref is not None:
                    # kept only as a starting point for the adversarial-input search of the runner; not a counterexample
                    try:
                        from .witness import concretize
                        o.witness = {k: concretize(r.model_ref, v) for k, v in paths[ob.path_id].inputs.items()}
                    except Exception as e:
                        o.witness_error = f'{type(e).__name__}: {e}'
            else:
                o.verdict = 'sat'
                o.tainted_refutation = False
                if o.model is None:
                    o.model = r.model
                    o.witness = None
                    o.witness_error = None
                    if r.model_ref is not None:
                        try:
                            from .witness import concretize
                            inputs = paths[ob.path_id].inputs
                            o.witness = {k: concretize(r.model_ref, v) for k, v in inputs.items()}
                            if getattr(c, 'repair_strings', False):
                                from . import specnative
                                for k, v in inputs.items():
                                    if isinstance(v, Sym) and v.kind == STR:
                                        o.witness[k] = specnative.repair_string(r.model_ref, v.t)
                        except Exception as e:
                            o.witness_error = f'{type(e).__name__}: {e}'
        elif r.verdict == 'unknown':
            if o.verdict == 'unsat':
                o.verdict = 'unknown'
                o.reason = r.reason
    res.seconds = time.time() - t0
    env.current = None
    return res
