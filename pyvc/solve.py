"""Discharging obligations: z3 in-process (short budget), then z3 and cvc5 as child processes with a hard
wall-clock kill.  unsat = discharged, sat = refuted (model kept), anything else = undecided."""
import hashlib
import os
import subprocess
import sys
import time
from concurrent.futures import ThreadPoolExecutor

import z3

HERE = os.path.dirname(os.path.abspath(__file__))
Z3_BIN = os.path.join(os.path.dirname(sys.executable), 'z3')
if not os.path.exists(Z3_BIN):
    Z3_BIN = '/usr/local/bin/z3-new'
CVC5_BIN = '/usr/bin/cvc5'

QUICK_MS = int(os.environ.get('PYVC_QUICK_MS', '400'))
SLOW_S = int(os.environ.get('PYVC_SLOW_S', '40'))
JOBS = int(os.environ.get('PYVC_JOBS', '14'))


class VCResult:
    __slots__ = ('verdict', 'backend', 'seconds', 'model', 'reason')

    def __init__(self, verdict, backend, seconds, model=None, reason=''):
        self.verdict = verdict      # 'unsat' | 'sat' | 'unknown'
        self.backend = backend
        self.seconds = seconds
        self.model = model
        self.reason = reason


def vc_solver(ob, timeout_ms):
    s = z3.Solver()
    s.set('timeout', timeout_ms)
    for c in ob.pc:
        s.add(c)
    s.add(z3.Not(ob.goal))
    return s


def model_dict(m):
    out = {}
    for d in m.decls():
        try:
            if d.arity() == 0:
                out[d.name()] = str(m[d])
        except Exception:
            pass
    return out


def quick(ob):
    t0 = time.time()
    g = z3.simplify(ob.goal)
    if z3.is_true(g):
        return VCResult('unsat', 'simplify', 0.0)
    s = vc_solver(ob, QUICK_MS)
    r = s.check()
    dt = time.time() - t0
    if r == z3.unsat:
        return VCResult('unsat', 'z3-api', dt)
    if r == z3.sat:
        return VCResult('sat', 'z3-api', dt, model_dict(s.model()))
    return VCResult('unknown', 'z3-api', dt, reason=s.reason_unknown())


def smt2_text(ob):
    s = vc_solver(ob, 1000)
    return s.to_smt2()


def run_cli(cmd, text, timeout):
    t0 = time.time()
    try:
        p = subprocess.run(cmd, input=text, capture_output=True, text=True, timeout=timeout)
        out = (p.stdout or '').strip().splitlines()
        first = out[0].strip() if out else ''
        if first in ('sat', 'unsat', 'unknown'):
            return first, time.time() - t0, (p.stdout or '')[:400]
        return 'unknown', time.time() - t0, ((p.stdout or '') + (p.stderr or ''))[:400]
    except subprocess.TimeoutExpired:
        return 'unknown', time.time() - t0, 'timeout (killed)'
    except Exception as e:      # pragma: no cover
        return 'unknown', time.time() - t0, f'error {e}'


def slow(text, use_cvc5=True, slow_s=None):
    slow_s = slow_s or SLOW_S
    v, dt, info = run_cli([Z3_BIN, '-in', f'-T:{slow_s}'], text, slow_s + 5)
    if v in ('sat', 'unsat'):
        return v, 'z3-cli', dt, info
    total = dt
    if use_cvc5 and 'seq.nth' not in text:
        t2 = '(set-logic ALL)\n' + text
        v2, dt2, info2 = run_cli([CVC5_BIN, '--strings-exp', f'--tlimit={slow_s * 1000}'], t2, slow_s + 5)
        total += dt2
        if v2 in ('sat', 'unsat'):
            return v2, 'cvc5-cli', total, info2
        info = info + ' | cvc5: ' + info2
    return 'unknown', 'z3+cvc5', total, info


def discharge(obligations, thorough=False):
    """Returns list of VCResult parallel to obligations."""
    results = [None] * len(obligations)
    pending = []
    cache = {}
    for i, ob in enumerate(obligations):
        r = quick(ob)
        if r.verdict == 'unknown':
            pending.append(i)
        results[i] = r
    if pending:
        texts = {}
        for i in pending:
            t = smt2_text(obligations[i])
            h = hashlib.sha1(t.encode()).hexdigest()
            texts[i] = (h, t)
        uniq = {}
        for i, (h, t) in texts.items():
            uniq.setdefault(h, t)
        slow_s = SLOW_S * (3 if thorough else 1)

        def work(item):
            h, t = item
            return h, slow(t, True, slow_s)
        with ThreadPoolExecutor(max_workers=JOBS) as ex:
            for h, res in ex.map(work, list(uniq.items())):
                cache[h] = res
        for i in pending:
            h, _ = texts[i]
            v, backend, dt, info = cache[h]
            if v == 'sat':
                # recover a model in-process (bounded)
                s = vc_solver(obligations[i], 20000)
                m = None
                if s.check() == z3.sat:
                    m = model_dict(s.model())
                results[i] = VCResult('sat', backend, dt, m, info)
            else:
                results[i] = VCResult(v, backend, dt, None, info)
    return results
