"""Discharging obligations: z3 in-process (short budget), then z3 and cvc5 as child processes with a hard
wall-clock kill.  unsat = discharged, sat = refuted (model kept), anything else = undecided."""
import hashlib
import os
import subprocess
import sys
import time
from concurrent.futures import ThreadPoolExecutor

import z3

HERE = os.path.dirname(os.path.abspath(__file__))
Z3_BIN = os.path.join(os.path.dirname(sys.executable), 'z3')
if not os.path.exists(Z3_BIN):
    Z3_BIN = '/usr/local/bin/z3-new'
CVC5_BIN = '/usr/bin/cvc5'

QUICK_MS = int(os.environ.get('PYVC_QUICK_MS', '400'))
SLOW_S = int(os.environ.get('PYVC_SLOW_S', '40'))
JOBS = int(os.environ.get('PYVC_JOBS', '14'))


class VCResult:
    __slots__ = ('verdict', 'backend', 'seconds', 'model', 'reason', 'model_ref')

    def __init__(self, verdict, backend, seconds, model=None, reason=''):
        self.verdict = verdict      # 'unsat' | 'sat' | 'unknown'
        self.backend = backend
        self.seconds = seconds
        self.model = model
        self.reason = reason
        self.model_ref = None


def vc_solver(ob, timeout_ms):
    s = z3.Solver()
    s.set('timeout', timeout_ms)
    for c in ob.pc:
        s.add(c)
    s.add(z3.Not(ob.goal))
    return s


def model_dict(m):
    out = {}
    for d in m.decls():
        try:
            if d.arity() == 0:
                out[d.name()] = str(m[d])
        except Exception:
            pass
    return out


def quick(ob):
    t0 = time.time()
    g = z3.simplify(ob.goal)
    if z3.is_true(g):
        return VCResult('unsat', 'simplify', 0.0)
    from .path import has_quantifier
    if has_quantifier(ob.goal) or any(has_quantifier(c) for c in ob.pc):
        # the in-process API has been seen to ignore its timeout on quantified string formulas:
        # such VCs go straight to the child-process solvers, which are killed at the budget
        return VCResult('unknown', 'z3-api', 0.0, reason='quantified: delegated to child-process solvers')
    s = vc_solver(ob, QUICK_MS)
    r = s.check()
    dt = time.time() - t0
    if r == z3.unsat:
        return VCResult('unsat', 'z3-api', dt)
    if r == z3.sat:
        res = VCResult('sat', 'z3-api', dt, model_dict(s.model()))
        res.model_ref = s.model()
        return res
    return VCResult('unknown', 'z3-api', dt, reason=s.reason_unknown())


def smt2_text(ob):
    s = vc_solver(ob, 1000)
    return s.to_smt2()


def run_cli(cmd, text, timeout):
    t0 = time.time()
    try:
        p = subprocess.run(cmd, input=text, capture_output=True, text=True, timeout=timeout)
        out = (p.stdout or '').strip().splitlines()
        first = out[0].strip() if out else ''
        if first in ('sat', 'unsat', 'unknown'):
            return first, time.time() - t0, (p.stdout or '')[:400]
        return 'unknown', time.time() - t0, ((p.stdout or '') + (p.stderr or ''))[:400]
    except subprocess.TimeoutExpired:
        return 'unknown', time.time() - t0, 'timeout (killed)'
    except Exception as e:      # pragma: no cover
        return 'unknown', time.time() - t0, f'error {e}'


def slow(text, use_cvc5=True, slow_s=None):
    """Race z3 and cvc5 as child processes; first definitive answer wins; both are killed at the budget."""
    slow_s = slow_s or SLOW_S
    t0 = time.time()
    procs = {}
    try:
        procs['z3-cli'] = subprocess.Popen([Z3_BIN, '-in', f'-T:{slow_s}'], stdin=subprocess.PIPE, stdout=subprocess.PIPE,
                                           stderr=subprocess.STDOUT, text=True)
        procs['z3-cli'].stdin.write(text)
        procs['z3-cli'].stdin.close()
        if use_cvc5 and 'seq.nth' not in text:
            procs['cvc5-cli'] = subprocess.Popen([CVC5_BIN, '--strings-exp', f'--tlimit={slow_s * 1000}'],
                                                 stdin=subprocess.PIPE, stdout=subprocess.PIPE, stderr=subprocess.STDOUT, text=True)
            procs['cvc5-cli'].stdin.write('(set-logic ALL)\n' + text)
            procs['cvc5-cli'].stdin.close()
        infos = {}
        pending = dict(procs)
        while pending and time.time() - t0 < slow_s + 5:
            for name, p in list(pending.items()):
                if p.poll() is not None:
                    out = (p.stdout.read() or '').strip()
                    first = out.splitlines()[0].strip() if out else ''
                    del pending[name]
                    if first in ('sat', 'unsat'):
                        return first, name, time.time() - t0, out[:300]
                    infos[name] = out[:200]
            time.sleep(0.02)
        return 'unknown', '+'.join(procs), time.time() - t0, str(infos) if infos else 'timeout (killed)'
    finally:
        for p in procs.values():
            if p.poll() is None:
                p.kill()
            try:
                p.stdout.close()
            except Exception:
                pass


class TextModel:
    """Model parsed from a CLI solver's (get-model) output; evaluates terms by substitution."""
    def __init__(self, text):
        self.vals = {}
        import re
        for m in re.finditer(r'\(define-fun\s+(\S+)\s+\(\)\s+(\w+)\s+((?:"(?:[^"]|"")*")|(?:\([^()]*\))|(?:[^\s()]+))\)', text):
            name, sort, val = m.group(1), m.group(2), m.group(3)
            name = name.strip('|')
            try:
                if sort == 'Int':
                    v = val.replace('(', '').replace(')', '').replace(' ', '')
                    self.vals[name] = z3.IntVal(int(v))
                elif sort == 'Bool':
                    self.vals[name] = z3.BoolVal(val == 'true')
                elif sort == 'String':
                    self.vals[name] = z3.StringVal(_unescape(val[1:-1]))
                elif sort == 'Real':
                    v = val.replace('(', ' ').replace(')', ' ').split()
                    if v and v[0] == '/':
                        self.vals[name] = z3.RealVal(v[1]) / z3.RealVal(v[2])
                    elif v and v[0] == '-':
                        self.vals[name] = -z3.RealVal(v[1])
                    else:
                        self.vals[name] = z3.RealVal(v[0])
            except Exception:
                pass

    def eval(self, t, model_completion=True):
        subs = []
        for v in _free_consts(t):
            n = v.decl().name()
            if n in self.vals:
                subs.append((v, self.vals[n]))
            else:
                s = v.sort()
                if s == z3.IntSort():
                    subs.append((v, z3.IntVal(0)))
                elif s == z3.BoolSort():
                    subs.append((v, z3.BoolVal(False)))
                elif s == z3.StringSort():
                    subs.append((v, z3.StringVal('')))
                elif s == z3.RealSort():
                    subs.append((v, z3.RealVal(0)))
        return z3.simplify(z3.substitute(t, subs)) if subs else z3.simplify(t)


def _unescape(s):
    import re
    s = s.replace('""', '"')
    return re.sub(r'\\u\{([0-9a-fA-F]+)\}', lambda m: chr(int(m.group(1), 16)), s)


def _free_consts(t):
    seen = set()
    out = []
    stack = [t]
    while stack:
        x = stack.pop()
        if x.get_id() in seen:
            continue
        seen.add(x.get_id())
        if z3.is_const(x) and x.decl().kind() == z3.Z3_OP_UNINTERPRETED:
            out.append(x)
        elif z3.is_app(x):
            stack.extend(x.children())
        elif z3.is_quantifier(x):
            stack.append(x.body())
    return out


def cli_model(text, backend, slow_s):
    if backend == 'cvc5-cli':
        t2 = '(set-logic ALL)\n(set-option :produce-models true)\n' + text + '\n(get-model)\n'
        p = subprocess.run([CVC5_BIN, '--strings-exp', f'--tlimit={slow_s * 1000}'], input=t2, capture_output=True, text=True, timeout=slow_s + 5)
    else:
        p = subprocess.run([Z3_BIN, '-in', f'-T:{slow_s}'], input=text + '\n(get-model)\n', capture_output=True, text=True, timeout=slow_s + 5)
    return TextModel(p.stdout or '')


def discharge(obligations, thorough=False):
    """Returns list of VCResult parallel to obligations."""
    results = [None] * len(obligations)
    pending = []
    cache = {}
    for i, ob in enumerate(obligations):
        r = quick(ob)
        if r.verdict == 'unknown':
            pending.append(i)
        results[i] = r
    if pending:
        texts = {}
        for i in pending:
            t = smt2_text(obligations[i])
            h = hashlib.sha1(t.encode()).hexdigest()
            texts[i] = (h, t)
        uniq = {}
        for i, (h, t) in texts.items():
            uniq.setdefault(h, t)
        slow_s = SLOW_S * (3 if thorough else 1)

        def work(item):
            h, t = item
            return h, slow(t, True, slow_s)
        with ThreadPoolExecutor(max_workers=JOBS) as ex:
            for h, res in ex.map(work, list(uniq.items())):
                cache[h] = res
        for i in pending:
            h, _ = texts[i]
            v, backend, dt, info = cache[h]
            if v == 'sat':
                # recover a model in-process (bounded)
                s = vc_solver(obligations[i], 20000)
                m = None
                mref = None
                if s.check() == z3.sat:
                    mref = s.model()
                    m = model_dict(mref)
                else:
                    try:
                        mref = cli_model(texts[i][1], backend, slow_s)
                        m = {k: str(v) for k, v in mref.vals.items()}
                    except Exception:
                        mref = None
                results[i] = VCResult('sat', backend, dt, m, info)
                results[i].model_ref = mref
            else:
                results[i] = VCResult(v, backend, dt, None, info)
    return results
