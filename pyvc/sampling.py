"""Sampling concrete inputs of a contract (declared domain + preconditions) from solver models; used by the engine
cross-check (tools/crosscheck.py) and by the native probe of the runner."""
import random

import z3

from . import sorts
from .contract import snapshot
from .path import Path, PathEnd, Unsupported
from .symex import Interp, Frame, PyExc
from .values import Sym, INT, STR
from .witness import concretize


def sample(env, c, n, seed, defer=False):
    """up to n witnesses (dicts) for contract c; [] when inputs cannot be built.
    defer=True (second attempt, used when the symbolic run of a constructor is outside the engine): parameters of a
    constructor-built sort are not built symbolically; the witness says how to call the REAL constructor natively."""
    fi = env.repo.find(c.target)
    env.current = c
    env.unroll = c.unroll
    env.max_recursion = c.max_recursion
    env.transparent_decorators = set(c.decorators)
    p = Path([], 0)
    I = Interp(env.repo, p, env)
    loc = {}
    pre = Frame(fi, fi.module, loc, cls=fi.cls)
    I._top_frame = pre
    deferred = {}
    try:
        for name, srt in c.params.items():
            if defer and isinstance(srt, sorts.Rec) and srt.init is not None:
                kw = {}
                for k, s2 in srt.init.items():
                    kw[k] = ('expr', s2.src) if isinstance(s2, sorts.Expr) else ('value', sorts.build(I, s2, f'{name}_{k}'))
                deferred[name] = (srt.ident, kw)
                continue
            loc[name] = I.eval_src(srt.src, pre) if isinstance(srt, sorts.Expr) else sorts.build(I, srt, name)
        if c.setup is not None:
            c.setup(I, loc)
        for src in c.requires:
            p.assume(I.formula_src(src, pre))
    except (Unsupported, PyExc, PathEnd) as e:
        if not defer and any(isinstance(s2, sorts.Rec) and s2.init is not None for s2 in c.params.values()):
            return sample(env, c, n, seed, defer=True)
        return [], f'inputs not built: {e}'
    except Exception as e:      # noqa
        return [], f'inputs not built: {type(e).__name__}: {e}'
    inputs = {k: snapshot(v) for k, v in loc.items()}
    out = []
    rnd = random.Random(seed)
    ints = [v for v in loc.values() if isinstance(v, Sym) and v.kind == INT]
    from .values import SDateTime, Obj
    import datetime as _dt
    dts = []

    def walk(v, depth=0):
        if isinstance(v, SDateTime):
            dts.append(v)
        elif isinstance(v, Obj) and depth < 3:
            for x in v.fields.values():
                walk(x, depth + 1)
        elif isinstance(v, (list, tuple)) and depth < 3:
            for x in v:
                walk(x, depth + 1)
    for v in loc.values():
        walk(v)
    for k in range(n):
        s = z3.Solver()
        s.set('timeout', 4000)
        s.set('random_seed', rnd.randrange(1 << 30))
        for t in p.pc if hasattr(p, 'pc') else []:
            s.add(t)
        if not hasattr(p, 'pc'):
            for t in p.solver.assertions():
                s.add(t)
        # nudge integer inputs towards different values; drop the nudges if they conflict
        nudges = [v.t == rnd.choice([0, 1, 2, 3, 4, 5, 6, 7, 9, 10, 11, 12, 13, 23, 28, 29, 30, 31, 59, 99, 100, 365, 1999, 2020]) for v in ints]
        from .values import REAL
        for v in loc.values():
            if isinstance(v, Sym) and v.kind == REAL:
                nudges.append(v.t == z3.RealVal(rnd.choice(['0', '1/2', '1/100000', '12345678901234567', '3/2', '100', '1/3', '99999999999999999999'])))
        base = _dt.date(2019, 12, 1).toordinal()
        for d in dts:
            if isinstance(d.ord, Sym):
                nudges.append(d.ord.t == base + rnd.randrange(0, 500))
            if isinstance(d.sec, Sym):
                nudges.append(d.sec.t == rnd.choice([0, 0, 1, 3600 * 10 + 30 * 60, 43200, 86399]))
        rnd.shuffle(nudges)
        s.push()
        for g in nudges[:max(1, (2 * len(nudges)) // 3)]:
            s.push()
            s.add(g)
            if s.check() != z3.sat:
                s.pop()
        if s.check() != z3.sat:
            s.pop()
            if s.check() != z3.sat:
                continue
        m = s.model()
        try:
            w = {name: concretize(m, v) for name, v in inputs.items()}
            for name, (ident, kw) in deferred.items():
                w[name] = {'__construct__': ident,
                           'kwargs': {k: ({'__expr__': v} if how == 'expr' else concretize(m, snapshot(v))) for k, (how, v) in kw.items()}}
        except Exception as e:      # noqa
            return out, f'witness not built: {type(e).__name__}: {e}'
        if getattr(c, 'repair_strings', False):
            from pyvc import specnative
            for name, v in inputs.items():
                if isinstance(v, Sym) and v.kind == STR:
                    w[name] = specnative.repair_string(m, v.t)
        out.append(w)
    return out, ''


