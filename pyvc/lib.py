"""Library models: operators, str/list/dict methods, builtins.  (datetime in libdt.py)"""
import ast
import decimal as _decimal
import z3

from .values import *
from .path import Unsupported, PathEnd


class _NotFound:
    def __repr__(self):
        return 'NOTFOUND'


NOTFOUND = _NotFound()


class LazyUnknown:
    def __init__(self, reason):
        self.reason = reason


class LazyField:
    def __init__(self, fn):
        self.fn = fn

    def force(self, I):
        return self.fn(I)


class Poison:
    def __init__(self, why):
        self.why = why


class ExcValue:
    def __init__(self, etype):
        self.etype = etype


class SliceVal:
    def __init__(self, lo, hi, step):
        self.lo, self.hi, self.step = lo, hi, step


class SymRange:
    def __init__(self, lo, hi, step):
        self.lo, self.hi, self.step = lo, hi, step


class SymEnumerate:
    def __init__(self, seq, start=0):
        self.seq = seq
        self.start = start


class ConcreteIter:
    def __init__(self, items):
        self.items = list(items)


class PyDecimal:
    """Concrete Decimal constant."""
    def __init__(self, value):
        self.value = value


class SMap:
    """Symbolic total map with a membership predicate: used for configuration tables declared as
    environment values (keys: str or int; values of one kind)."""
    def __init__(self, name, keykind, valkind, has, get, default_missing=None):
        self.name = name
        self.keykind = keykind
        self.valkind = valkind
        self.has = has        # z3 function key -> Bool
        self.get = get        # z3 function key -> value
        self.val_range = (None, None)

    def lookup(self, I, tk):
        """the value term for a key, with the declared value range instantiated for this key (the quantified range
        fact is not seen by the branch-feasibility solver)"""
        v = self.get(tk)
        lo, hi = self.val_range
        if lo is not None:
            I.p.assume(v >= lo)
        if hi is not None:
            I.p.assume(v <= hi)
        return v


class SpecNative:
    """A spec-level primitive implemented directly in the engine."""
    def __init__(self, name, fn):
        self.name = name
        self.fn = fn

    def call(self, I, args, kwargs):
        return self.fn(I, args, kwargs)


def PyExc(*a):
    from .symex import PyExc as P
    return P(*a)


def deep_sym(v):
    if isinstance(v, (tuple, list)):
        return any(deep_sym(x) for x in v)
    return is_sym(v)


def hashable(k):
    if isinstance(k, list):
        return tuple(hashable(x) for x in k)
    return k


# ---------------------------------------------------------------------------------------- int/str helpers
_DIGITS = z3.Plus(z3.Range('0', '9'))


def _ISDIG(t):
    """s is a non-empty ASCII digit string (interpreted: regular-expression membership)"""
    return z3.InRe(t, _DIGITS)


def _SINT(t):
    """int(s) for an ASCII digit string: SMT-LIB str.to_int (interpreted)"""
    return z3.StrToInt(t)


def istr(I, n):
    """str(n) for n >= 0: SMT-LIB str.from_int (interpreted)"""
    return z3.IntToStr(n)


def str_of_int(I, v):
    """python str(int)"""
    if isinstance(v, bool):
        return str(v)
    if isinstance(v, int):
        return str(v)
    n = v.t
    if I.branch(n >= 0):
        t = istr(I, n)
        return Sym(STR, t, parts=[Digits(n, 1, t)])
    t = istr(I, -n)
    return Sym(STR, z3.Concat(z3.StringVal('-'), t), parts=['-', Digits(-n, 1, t)])


def pad_int(I, n, width):
    """str(n).rjust(width, '0') for n >= 0, by magnitude (no string-length reasoning needed)"""
    t = istr(I, n)
    out = t
    for k in range(width - 1, 0, -1):
        # n < 10**k has k digits at most: needs width-k zeros when it has exactly k digits
        out = z3.If(n < 10 ** k, z3.Concat(z3.StringVal('0' * (width - k)), t), out) if k == width - 1 else \
            z3.If(n < 10 ** k, z3.Concat(z3.StringVal('0' * (width - k)), t), out)
    return out


def zeros(k):
    t = z3.StringVal('')
    for j in range(8, 0, -1):
        t = z3.If(k == j, z3.StringVal('0' * j), t)
    return t


def pad_left_zero(I, s, width):
    """s.rjust(width,'0') for an arbitrary z3 string term s, concrete small width"""
    if width > 8:
        raise Unsupported('pad width > 8')
    if z3.is_app(s) and s.decl().kind() == z3.Z3_OP_SEQ_FROM_INT if hasattr(z3, 'Z3_OP_SEQ_FROM_INT') else False:
        return pad_int(I, s.arg(0), width)
    if z3.is_app(s) and s.decl().name() in ('int.to.str', 'str.from_int'):
        return pad_int(I, s.arg(0), width)
    ln = z3.Length(s)
    return z3.If(ln >= width, s, z3.Concat(zeros(width - ln), s))


def format_int_0w(I, v, width):
    """format(v, '0{width}d')"""
    if isinstance(v, bool):
        v = int(v)
    if isinstance(v, int):
        return format(v, f'0{width}d')
    if not isinstance(v, Sym):
        raise PyExc('TypeError' if not isinstance(v, float) else 'ValueError', 'format d of non-int')
    if v.kind != INT:
        raise PyExc('ValueError', 'format d of non-int')
    n = v.t
    if I.branch(n >= 0):
        t = pad_int(I, n, width)
        return Sym(STR, t, parts=[Digits(n, width, t)])
    t = pad_int(I, -n, max(width - 1, 1))
    return Sym(STR, z3.Concat(z3.StringVal('-'), t), parts=['-', Digits(-n, max(width - 1, 1), t)])


def format_value(I, val, spec):
    val = I.resolve(val)
    if spec == '':
        return to_str(I, val)
    if len(spec) >= 2 and spec[0] == '0' and spec[-1] == 'd' and spec[1:-1].isdigit():
        return format_int_0w(I, val, int(spec[1:-1]))
    if spec == 'd':
        return to_str(I, val)
    if is_sym(val):
        raise Unsupported(f'format spec {spec!r} on symbolic value')
    return format(val, spec)


def to_str(I, v):
    v = I.resolve(v)
    if v is None:
        return 'None'
    if isinstance(v, (str,)):
        return v
    if isinstance(v, (bool, int, float)):
        return str(v)
    if isinstance(v, PyDecimal):
        return str(v.value)
    if isinstance(v, Sym):
        if v.kind == STR:
            return v
        if v.kind == INT:
            return str_of_int(I, v)
        if v.kind == BOOL:
            return 'True' if I.branch(v.t) else 'False'
        if v.kind == REAL:
            return Sym(STR, real_str(I, v.t))
    if isinstance(v, Unknown):
        return I.unknown('str of ' + v.reason)
    from . import libdt
    r = libdt.to_str(I, v)
    if r is not NOTFOUND:
        return r
    raise Unsupported(f'str() of {type(v).__name__}')


_RSTR = z3.Function('rstr', z3.RealSort(), z3.StringSort())     # str(Decimal/float): uninterpreted, injective
_SREAL = z3.Function('sreal', z3.StringSort(), z3.RealSort())


def real_str(I, t):
    s = _RSTR(t)
    key = ('rstr', t.get_id())
    if key not in I.p.ghost:
        I.p.ghost[key] = t     # pins the term (z3 reuses ids)
        I.p.assume(_SREAL(s) == t)
    return s


def parts_of(v):
    if isinstance(v, str):
        return [v] if v else []
    if isinstance(v, Sym) and v.kind == STR:
        if v.parts is not None:
            return list(v.parts)
        return [OpaqueStr(v.t)]
    raise Unsupported(f'parts of {v!r}')


def norm_parts(ps):
    out = []
    for p in ps:
        if isinstance(p, str):
            if not p:
                continue
            if out and isinstance(out[-1], str):
                out[-1] = out[-1] + p
                continue
        out.append(p)
    return out


def str_from_parts(ps):
    ps = norm_parts(ps)
    if not ps:
        return ''
    if len(ps) == 1 and isinstance(ps[0], str):
        return ps[0]
    terms = [z3.StringVal(p) if isinstance(p, str) else p.t for p in ps]
    t = terms[0] if len(terms) == 1 else z3.Concat(*terms)
    if all(isinstance(p, OpaqueStr) and not p.alpha for p in ps) and len(ps) == 1:
        return Sym(STR, t)
    return Sym(STR, t, parts=ps)


def concat_strs(I, parts):
    if all(isinstance(p, str) for p in parts):
        return ''.join(parts)
    if any(isinstance(p, Unknown) for p in parts):
        return I.unknown('concat with unknown')
    ps = []
    for p in parts:
        if not (isinstance(p, str) or (isinstance(p, Sym) and p.kind == STR)):
            raise Unsupported(f'concat of {p!r}')
        ps.extend(parts_of(p))
    return str_from_parts(ps)


def ite(I, c, a, b):
    if isinstance(c, bool):
        return a if c else b
    ka, kb = I.kind_of(a), I.kind_of(b)
    if ka is None or kb is None:
        raise Unsupported('ite of non-scalars')
    kind = ka if ka == kb else (REAL if {ka, kb} <= {INT, REAL} else None)
    if kind is None:
        raise Unsupported('ite of different kinds')
    return Sym(kind, z3.If(c, I.term(a, kind), I.term(b, kind)))


def and_(I, a, b):
    if isinstance(a, bool):
        return b if a else False
    if isinstance(b, bool):
        return a if b else False
    return Sym(BOOL, z3.And(I.as_bool_term(a), I.as_bool_term(b)))


# ---------------------------------------------------------------------------------------- arithmetic
def py_floordiv(a, b):
    """Python floor division on z3 Int terms (z3 div is floor only for positive divisors)."""
    if z3.is_int_value(b):
        bv = b.as_long()
        if bv > 0:
            return a / b
        if bv < 0:
            return (-a) / (-b)   # floor(a/b) = floor((-a)/(-b)), -b > 0
    return z3.If(b > 0, a / b, (-a) / (-b))


def py_mod(a, b):
    if z3.is_int_value(b):
        bv = b.as_long()
        if bv > 0:
            return a % b
        if bv < 0:
            return -((-a) % (-b))
    return z3.If(b > 0, a % b, -((-a) % (-b)))


def _integral_real(t):
    """syntactic check: a real-sorted term that is an integer (sums/products of to_real(int) and integer numerals)"""
    t = z3.simplify(t)
    if z3.is_rational_value(t):
        return t.denominator_as_long() == 1
    if z3.is_app(t):
        k = t.decl().kind()
        if k == z3.Z3_OP_TO_REAL:
            return True
        if k in (z3.Z3_OP_ADD, z3.Z3_OP_SUB, z3.Z3_OP_MUL, z3.Z3_OP_UMINUS):
            return all(_integral_real(c) for c in t.children())
    return False


def binop(I, op, a, b, inplace=False):
    from . import libdt
    if isinstance(a, Unknown) or isinstance(b, Unknown):
        return I.unknown('binop on unknown')
    r = libdt.binop(I, op, a, b)
    if r is not NOTFOUND:
        return r
    # lists / tuples / strings (concrete containers)
    if op is ast.Add and isinstance(a, list) and isinstance(b, list):
        if inplace:
            a.extend(b)
            return a
        return a + b
    if op is ast.Add and isinstance(a, tuple) and isinstance(b, tuple):
        return a + b
    if op is ast.Mult and isinstance(a, (list, str, tuple)) and isinstance(b, int) and not isinstance(b, bool):
        return a * b
    if op is ast.Mult and isinstance(b, (list, str, tuple)) and isinstance(a, int):
        return a * b
    if op is ast.Mult and isinstance(a, list) and len(a) == 1 and isinstance(b, Sym) and b.kind == INT \
            and isinstance(a[0], (bool, int)):
        # [c] * n for a symbolic n: a constant array of length max(n, 0)
        kind = BOOL if isinstance(a[0], bool) else INT
        arr = z3.K(z3.IntSort(), I.term(a[0], kind))
        n = Sym(INT, z3.If(b.t < 0, 0, b.t))
        return SArr(arr, n, kind)
    if op is ast.Add and (isinstance(a, SSeq) or isinstance(b, SSeq)):
        return seq_concat(I, a, b)
    if op is ast.Mod and isinstance(a, str) and not is_sym(b):
        return a % b
    ka, kb = I.kind_of(a), I.kind_of(b)
    if ka == STR and kb == STR:
        if op is ast.Add:
            return concat_strs(I, [a, b])
        raise PyExc('TypeError', 'str op')
    if ka is None or kb is None:
        if isinstance(a, PyDecimal) or isinstance(b, PyDecimal):
            pass
        else:
            raise Unsupported(f'binop {op.__name__} on {type(a).__name__}, {type(b).__name__}')
    if (ka == STR) != (kb == STR):
        if op is ast.Mult:
            raise Unsupported('symbolic str repetition')
        raise PyExc('TypeError', f'{op.__name__} str/non-str')
    if not isinstance(a, (Sym,)) and not isinstance(b, (Sym,)) and not isinstance(a, PyDecimal) and not isinstance(b, PyDecimal):
        return concrete_binop(I, op, a, b)
    # numeric symbolic
    if isinstance(a, PyDecimal) and isinstance(b, PyDecimal):
        return PyDecimal(concrete_binop(I, op, a.value, b.value))
    if isinstance(a, PyDecimal) and not isinstance(b, Sym):
        if isinstance(b, float):
            raise PyExc('TypeError', 'Decimal op float')
        return PyDecimal(concrete_binop(I, op, a.value, b))
    if isinstance(b, PyDecimal) and not isinstance(a, Sym):
        if isinstance(a, float):
            raise PyExc('TypeError', 'float op Decimal')
        return PyDecimal(concrete_binop(I, op, a, b.value))
    if BOOL in (ka, kb):
        if ka == BOOL:
            a = Sym(INT, z3.If(I.term(a), 1, 0)) if isinstance(a, Sym) else int(a)
            ka = INT
        if kb == BOOL:
            b = Sym(INT, z3.If(I.term(b), 1, 0)) if isinstance(b, Sym) else int(b)
            kb = INT
    real = REAL in (ka, kb) or op is ast.Div
    if op in (ast.LShift, ast.RShift, ast.BitAnd, ast.BitOr, ast.BitXor):
        if real:
            raise PyExc('TypeError', 'bit op on float')
        if op in (ast.LShift, ast.RShift) and isinstance(b, int) and b >= 0:
            ta = I.term(a)
            if op is ast.LShift:
                return Sym(INT, ta * (2 ** b))
            return Sym(INT, ta / z3.IntVal(2 ** b))   # floor for positive divisor: matches python >> on all ints
        raise Unsupported('bit operation on symbolic ints')
    if real:
        ta, tb = I.term(a, REAL), I.term(b, REAL)
        if op is ast.Add:
            return Sym(REAL, ta + tb)
        if op is ast.Sub:
            return Sym(REAL, ta - tb)
        if op is ast.Mult:
            return Sym(REAL, ta * tb)
        if op is ast.Div:
            if I.branch(tb == 0):
                raise PyExc('ZeroDivisionError')
            return Sym(REAL, ta / tb)
        if op is ast.FloorDiv:
            if I.branch(tb == 0):
                raise PyExc('ZeroDivisionError')
            return Sym(REAL, z3.ToReal(z3.ToInt(ta / tb)))
        if op is ast.Mod and isinstance(b, (int, float)) and b == 1 and _integral_real(ta):
            return 0.0
        if op is ast.Mod and isinstance(b, (int, float)) and b > 0:
            q = z3.ToReal(z3.ToInt(ta / tb))
            return Sym(REAL, ta - tb * q)
        if op is ast.Pow and isinstance(b, int) and 0 <= b <= 4:
            r = z3.RealVal(1)
            for _ in range(b):
                r = r * ta
            return Sym(REAL, r)
        raise Unsupported(f'real op {op.__name__}')
    ta, tb = I.term(a), I.term(b)
    if op is ast.Add:
        return Sym(INT, ta + tb)
    if op is ast.Sub:
        return Sym(INT, ta - tb)
    if op is ast.Mult:
        return Sym(INT, ta * tb)
    if op is ast.FloorDiv:
        if I.branch(tb == 0):
            raise PyExc('ZeroDivisionError')
        return Sym(INT, py_floordiv(ta, tb))
    if op is ast.Mod:
        if I.branch(tb == 0):
            raise PyExc('ZeroDivisionError')
        return Sym(INT, py_mod(ta, tb))
    if op is ast.Pow and isinstance(b, int) and 0 <= b <= 4:
        r = z3.IntVal(1)
        for _ in range(b):
            r = r * ta
        return Sym(INT, r)
    raise Unsupported(f'int op {op.__name__}')


def concrete_binop(I, op, a, b):
    import operator
    table = {ast.Add: operator.add, ast.Sub: operator.sub, ast.Mult: operator.mul, ast.Div: operator.truediv,
             ast.FloorDiv: operator.floordiv, ast.Mod: operator.mod, ast.Pow: operator.pow,
             ast.LShift: operator.lshift, ast.RShift: operator.rshift, ast.BitAnd: operator.and_,
             ast.BitOr: operator.or_, ast.BitXor: operator.xor}
    try:
        return table[op](a, b)
    except ZeroDivisionError:
        raise PyExc('ZeroDivisionError')
    except TypeError as e:
        raise PyExc('TypeError', str(e))
    except _decimal.InvalidOperation:
        raise PyExc('InvalidOperation')


# ---------------------------------------------------------------------------------------- comparison
def eq_term(I, a, b):
    """Equality as python bool or z3 Bool."""
    from . import libdt
    a, b = I.resolve(a), I.resolve(b)
    if isinstance(a, Unknown) or isinstance(b, Unknown):
        return z3.Bool(I.p.fresh_name('unkeq')) if (I.p.taint('eq on unknown') or True) else None
    if a is None or b is None:
        return a is None and b is None
    if a is ABSENT or b is ABSENT:
        return a is b
    if isinstance(a, (list, tuple)) and isinstance(b, (list, tuple)):
        if type(a) is not type(b) or len(a) != len(b):
            return False
        acc = True
        for x, y in zip(a, b):
            e = eq_term(I, x, y)
            if isinstance(e, bool):
                if not e:
                    return False
            else:
                acc = e if acc is True else z3.And(acc, e)
        return acc
    if isinstance(a, EnumMember) or isinstance(b, EnumMember):
        return a is b           # a plain Enum member equals only itself
    r = libdt.eq(I, a, b)
    if r is not NOTFOUND:
        return r
    ka, kb = I.kind_of(a), I.kind_of(b)
    if ka is not None and kb is not None:
        if (ka == STR) != (kb == STR):
            return False
        if not isinstance(a, Sym) and not isinstance(b, Sym):
            av = a.value if isinstance(a, PyDecimal) else a
            bv = b.value if isinstance(b, PyDecimal) else b
            return av == bv
        if ka == STR:
            from . import strparts as SP
            r = SP.equal_units(a, b)
            if r is not SP.NOTFOUND:
                return r
            r = SP.equal(a, b)
            if r is not SP.NOTFOUND:
                return r
            return I.term(a) == I.term(b)
        if BOOL in (ka, kb) and ka != kb:
            ta = I.term(a, INT) if not isinstance(a, Sym) else (z3.If(a.t, 1, 0) if ka == BOOL else a.t)
            tb = I.term(b, INT) if not isinstance(b, Sym) else (z3.If(b.t, 1, 0) if kb == BOOL else b.t)
            if REAL in (ka, kb):
                raise Unsupported('bool/real eq')
            return ta == tb
        if REAL in (ka, kb):
            return I.term(a, REAL) == I.term(b, REAL)
        return I.term(a) == I.term(b)
    if isinstance(a, (Obj, ClassVal, FuncVal)) or isinstance(b, (Obj, ClassVal, FuncVal)):
        if isinstance(a, Obj) and isinstance(b, Obj) and a.cls is not None:
            m = I.repo.find_method(a.cls, '__eq__')
            if m is not None:
                r = I.call_func(FuncVal(m, a, m.cls), [b], {})
                return r if isinstance(r, bool) else I.as_bool_term(r)
        if isinstance(a, ClassVal) and isinstance(b, ClassVal):
            return a.info is b.info
        return a is b
    if isinstance(a, (dict, set, frozenset)) and isinstance(b, (dict, set, frozenset)):
        if any(is_sym(v) for v in (list(a.values()) if isinstance(a, dict) else a)):
            raise Unsupported('eq on dict with symbolic values')
        return a == b
    if isinstance(a, SSeq) and isinstance(b, SSeq):
        return a.t == b.t
    if isinstance(a, SSeq) and isinstance(b, list) or isinstance(b, SSeq) and isinstance(a, list):
        s, l = (a, b) if isinstance(a, SSeq) else (b, a)
        return s.t == seq_of_list(I, l, s.elem).t
    if type(a) is not type(b) and not is_sym(a) and not is_sym(b):
        return False
    raise Unsupported(f'== on {type(a).__name__}, {type(b).__name__}')


def wrap_bool(t):
    if isinstance(t, bool):
        return t
    s = z3.simplify(t)
    if z3.is_true(s):
        return True
    if z3.is_false(s):
        return False
    return Sym(BOOL, t)


def compare(I, op, a, b):
    from . import libdt
    if op in (ast.Is, ast.IsNot):
        a, b = I.resolve(a), I.resolve(b)
        if a is None or b is None:
            r = (a is None and b is None)
        elif isinstance(a, bool) or isinstance(b, bool):
            if isinstance(a, Sym) or isinstance(b, Sym):
                r = eq_term(I, a, b)
            else:
                r = a is b
        elif isinstance(a, (Obj, ClassVal)) or isinstance(b, (Obj, ClassVal)):
            r = a is b
        elif type(a).__name__ == 'MatchVal' or type(b).__name__ == 'MatchVal':
            r = a is b          # match objects of the environment: identity of the engine value
        elif isinstance(a, Unknown) or isinstance(b, Unknown):
            r = Sym(BOOL, z3.Bool(I.p.fresh_name('unkis')))
            I.p.taint('is on unknown')
            return r if op is ast.Is else Sym(BOOL, z3.Not(r.t))
        else:
            r = eq_term(I, a, b)
        if op is ast.IsNot:
            return wrap_bool(z3.Not(r)) if not isinstance(r, bool) else (not r)
        return wrap_bool(r)
    if op is ast.Eq:
        return wrap_bool(eq_term(I, a, b))
    if op is ast.NotEq:
        r = eq_term(I, a, b)
        return (not r) if isinstance(r, bool) else wrap_bool(z3.Not(r))
    if op in (ast.In, ast.NotIn):
        r = contains(I, I.resolve(b), I.resolve(a))
        if op is ast.NotIn:
            return (not r) if isinstance(r, bool) else wrap_bool(z3.Not(I.as_bool_term(r)))
        return r
    a, b = I.resolve(a), I.resolve(b)
    if isinstance(a, Unknown) or isinstance(b, Unknown):
        I.p.taint('compare on unknown')
        return Sym(BOOL, z3.Bool(I.p.fresh_name('unkcmp')))
    r = libdt.order(I, op, a, b)
    if r is not NOTFOUND:
        return wrap_bool(r)
    if a is None or b is None:
        raise PyExc('TypeError', 'ordering with None')
    ka, kb = I.kind_of(a), I.kind_of(b)
    if ka is None or kb is None:
        if isinstance(a, (tuple, list)) and isinstance(b, (tuple, list)) and not any(is_sym(x) for x in list(a) + list(b)):
            return {ast.Lt: a < b, ast.LtE: a <= b, ast.Gt: a > b, ast.GtE: a >= b}[op]
        raise Unsupported(f'ordering on {type(a).__name__}, {type(b).__name__}')
    if (ka == STR) != (kb == STR):
        raise PyExc('TypeError', 'ordering str/non-str')
    if not isinstance(a, Sym) and not isinstance(b, Sym):
        av = a.value if isinstance(a, PyDecimal) else a
        bv = b.value if isinstance(b, PyDecimal) else b
        return {ast.Lt: av < bv, ast.LtE: av <= bv, ast.Gt: av > bv, ast.GtE: av >= bv}[op]
    if ka == STR:
        ta, tb = I.term(a), I.term(b)
        # z3 string order is lexicographic on code points like python
        return wrap_bool({ast.Lt: ta < tb, ast.LtE: ta <= tb, ast.Gt: tb < ta, ast.GtE: tb <= ta}[op])
    kind = REAL if REAL in (ka, kb) else INT
    def num(v, k):
        if isinstance(v, Sym) and v.kind == BOOL:
            return z3.If(v.t, 1, 0)
        if isinstance(v, bool):
            v = int(v)
        return I.term(v, kind)
    ta, tb = num(a, ka), num(b, kb)
    return wrap_bool({ast.Lt: ta < tb, ast.LtE: ta <= tb, ast.Gt: ta > tb, ast.GtE: ta >= tb}[op])


def contains(I, container, item):
    if isinstance(container, Unknown) or isinstance(item, Unknown):
        I.p.taint('in on unknown')
        return Sym(BOOL, z3.Bool(I.p.fresh_name('unkin')))
    if isinstance(container, (list, tuple, set, frozenset)):
        acc = False
        for x in container:
            e = eq_term(I, x, item)
            if isinstance(e, bool):
                if e:
                    return True
            else:
                acc = e if acc is False else z3.Or(acc, e)
        return wrap_bool(acc)
    if isinstance(container, dict):
        if not deep_sym(item) and not any(deep_sym(x) for x in container):
            return hashable(item) in container
        return contains(I, list(container.keys()), item)
    if isinstance(container, SMap):
        return wrap_bool(container.has(I.term(item)))
    if isinstance(container, str) and isinstance(item, str):
        return item in container
    if I.kind_of(container) == STR:
        if I.kind_of(item) != STR:
            raise PyExc('TypeError', 'in <str> requires str')
        from . import strparts as SP
        r = SP.contains(container, item) if isinstance(item, str) else SP.NOTFOUND
        if r is not SP.NOTFOUND:
            return r
        return wrap_bool(z3.Contains(I.term(container), I.term(item)))
    if isinstance(container, SSeq):
        return wrap_bool(z3.Contains(container.t, z3.Unit(elem_term(I, item, container.elem))))
    if isinstance(container, SArr):
        k = z3.Int(I.p.fresh_name('k_in'))
        e = arr_get(I, container, k)
        eqt = eq_term(I, e, item)
        return wrap_bool(z3.Exists([k], z3.And(k >= 0, k < I.term(container.n), eqt)))
    if isinstance(container, SymRange):
        if container.step == 1:
            return wrap_bool(z3.And(I.term(container.lo) <= I.term(item), I.term(item) < I.term(container.hi)))
    if isinstance(container, Obj) and container.cls is not None:
        m = I.repo.find_method(container.cls, '__contains__')
        if m is not None:
            return I.call_func(FuncVal(m, container, m.cls), [item], {})
    raise Unsupported(f'in on {type(container).__name__}')


# ---------------------------------------------------------------------------------------- sequences
def elem_term(I, v, elem):
    from . import libdt
    if elem == 'dt':
        return libdt.dt_total(I, v)
    return I.term(v, elem)


def elem_value(I, t, elem):
    from . import libdt
    if elem == 'dt':
        return libdt.dt_from_total(I, t)
    return Sym(elem, t)


def arr_get(I, a, ti):
    if a.elem == 'any':
        return I.unknown('untracked list column')
    if a.elem == 'dt':
        return SDateTime(Sym(INT, z3.Select(a.arr, ti)), Sym(INT, z3.Select(a.arr2, ti)))
    if a.elem == STR and a.src is not None:
        # list(s) that has not been written to: element i is the character s[i]
        return SChar(z3.SubString(a.src.t, ti, 1), a.src, Sym(INT, ti))
    return Sym(a.elem, z3.Select(a.arr, ti))


def arr_store(I, a, ti, v):
    """in-place element store (list identity is the SArr object)"""
    if a.elem == 'dt':
        v = I.resolve(v)
        if not isinstance(v, SDateTime):
            raise Unsupported('non-datetime stored into a datetime list')
        a.arr = z3.Store(a.arr, ti, I.term(v.ord))
        a.arr2 = z3.Store(a.arr2, ti, I.term(v.sec))
    else:
        a.arr = z3.Store(a.arr, ti, I.term(v, a.elem))
        a.src = None


def arr_append(I, a, v):
    arr_store(I, a, I.term(a.n), v)
    a.n = I.binop(ast.Add, a.n, 1)


def seq_sort(elem):
    return z3.SeqSort(z3.IntSort() if elem == 'dt' else sort_of(elem))


def seq_of_list(I, l, elem):
    if not l:
        return SSeq(z3.Empty(seq_sort(elem)), elem)
    units = [z3.Unit(elem_term(I, x, elem)) for x in l]
    return SSeq(units[0] if len(units) == 1 else z3.Concat(*units), elem)


def seq_concat(I, a, b):
    if isinstance(a, list):
        a = seq_of_list(I, a, b.elem)
    if isinstance(b, list):
        b = seq_of_list(I, b, a.elem)
    return SSeq(z3.Concat(a.t, b.t), a.elem)


def length(I, v):
    v = I.resolve(v)
    if isinstance(v, (list, tuple, str, dict, set, frozenset)):
        return len(v)
    if isinstance(v, Sym) and v.kind == STR:
        if v.parts is not None:
            from . import strparts as SP
            r = SP.concrete_len(v)
            if r is not SP.NOTFOUND:
                return r
        return Sym(INT, z3.Length(v.t))
    if isinstance(v, SSeq):
        return Sym(INT, z3.Length(v.t))
    if isinstance(v, (SArr, SRecList)):
        return v.n
    from .libb import CharList
    if isinstance(v, CharList):
        return length(I, v.s)
    if isinstance(v, SymEnumerate):
        return length(I, v.seq)
    if isinstance(v, SymRange):
        if v.step == 1:
            d = I.binop(ast.Sub, v.hi, v.lo)
            if isinstance(d, int):
                return max(d, 0)
            return Sym(INT, z3.If(d.t > 0, d.t, 0))
    if isinstance(v, ConcreteIter):
        return len(v.items)
    if isinstance(v, Unknown):
        I.p.taint('len of unknown')
        n = I.fresh(INT, 'unklen')
        I.p.assume(n.t >= 0)
        return n
    raise PyExc('TypeError', f'len of {type(v).__name__}')


def getitem_iter(I, seq, i):
    if isinstance(seq, SymEnumerate):
        return (I.binop(ast.Add, i, seq.start), getitem_iter(I, seq.seq, i))
    return subscript(I, seq, i)


def norm_index(I, k, n):
    """Python index normalisation with IndexError: returns the effective index."""
    if isinstance(k, int) and isinstance(n, int):
        if k < -n or k >= n:
            raise PyExc('IndexError')
        return k + n if k < 0 else k
    tk, tn = I.term(k), I.term(n)
    if I.branch(z3.And(tk >= 0, tk < tn)):
        return k
    if I.branch(z3.And(tk < 0, tk >= -tn)):
        return I.binop(ast.Add, k, n)
    raise PyExc('IndexError')


def subscript(I, o, k):
    from . import libdt
    if isinstance(o, Unknown):
        return I.unknown(f'{o.reason}[...]')
    if isinstance(k, SliceVal):
        return slice_(I, o, k)
    k = I.resolve(k)
    if isinstance(k, Unknown):
        return I.unknown('subscript by unknown')
    if isinstance(o, (list, tuple)) and I.noforking and isinstance(k, Sym):
        kinds = {('dt' if isinstance(x, SDateTime) else I.kind_of(x)) for x in o}
        if len(kinds) == 1 and None not in kinds:
            return subscript(I, seq_of_list(I, list(o), kinds.pop()), k)
        raise Unsupported('symbolic index into a heterogeneous concrete list under a quantifier')
    if isinstance(o, (list, tuple)):
        if isinstance(k, (int,)) and not isinstance(k, bool):
            try:
                return o[k]
            except IndexError:
                raise PyExc('IndexError')
        if isinstance(k, Sym) and k.kind == INT:
            i = norm_index(I, k, len(o))
            # fork over the concrete positions
            for j in range(len(o)):
                if I.branch(I.term(i) == j):
                    return o[j]
            raise PathEnd()
        raise PyExc('TypeError', 'list index')
    if isinstance(o, dict):
        if not deep_sym(k) and not any(deep_sym(x) for x in o):
            hk = hashable(k)
            if hk in o:
                return o[hk]
            raise PyExc('KeyError', repr(k))
        for key in o:
            e = eq_term(I, key, k)
            if I.branch(e if not isinstance(e, bool) else e):
                return o[key]
        raise PyExc('KeyError', 'symbolic key')
    if isinstance(o, SMap):
        tk = I.term(k)
        if not I.branch(o.has(tk)):
            raise PyExc('KeyError', o.name)
        return Sym(o.valkind, o.lookup(I, tk))
    if isinstance(o, str):
        if isinstance(k, int):
            try:
                return o[k]
            except IndexError:
                raise PyExc('IndexError')
        o = Sym(STR, z3.StringVal(o))
    if isinstance(o, Sym) and o.kind == STR:
        if o.parts is not None and isinstance(k, int):
            from . import strparts as SP
            r = SP.char_at(o, k)
            if r == 'IndexError':
                raise PyExc('IndexError')
            if r is not SP.NOTFOUND:
                return r
        i = k if I.noforking else norm_index(I, k, Sym(INT, z3.Length(o.t)))
        return SChar(z3.SubString(o.t, I.term(i), 1), o, i)
    if isinstance(o, SSeq):
        i = k if I.noforking else norm_index(I, k, Sym(INT, z3.Length(o.t)))
        return elem_value(I, o.t[I.term(i)], o.elem)
    if isinstance(o, SArr):
        i = k if I.noforking else norm_index(I, k, o.n)
        return arr_get(I, o, I.term(i))
    if isinstance(o, SRecList):
        i = k if I.noforking else norm_index(I, k, o.n)
        return RecView(o, i)
    from .libb import CharList
    if isinstance(o, CharList):
        return subscript(I, o.s, k)
    r = libdt.subscript(I, o, k)
    if r is not NOTFOUND:
        return r
    from . import envmodel as E
    if isinstance(o, E.MatchVal):
        return E.match_getitem(I, o, k)
    if isinstance(o, Obj) and o.cls is not None:
        m = I.repo.find_method(o.cls, '__getitem__')
        if m is not None:
            return I.call_func(FuncVal(m, o, m.cls), [k], {})
    raise Unsupported(f'subscript on {type(o).__name__}')


class RecView:
    """A reference to element i of an SRecList held in some variable: reads select from the arrays at
    the time of the read through `owner` (so it is only valid while the list value is not replaced)."""
    def __init__(self, owner, i):
        self.owner = owner
        self.i = i


def slice_bounds(I, lo, hi, n):
    """Clamp python slice bounds (step 1) to [0,n]; returns (lo, hi) values with lo<=hi."""
    def clamp(v, default):
        if v is None:
            return default
        v = I.resolve(v)
        if isinstance(v, int) and isinstance(n, int):
            if v < 0:
                v += n
            return min(max(v, 0), n)
        tv, tn = I.term(v), I.term(n)
        return Sym(INT, z3.If(tv < 0, z3.If(tv + tn < 0, 0, tv + tn), z3.If(tv > tn, tn, tv)))
    a = clamp(lo, 0)
    b = clamp(hi, n)
    return a, b


def slice_(I, o, s):
    if s.step is not None and s.step != 1:
        if not is_sym(o) and not any(is_sym(x) for x in (s.lo, s.hi, s.step)):
            return o[s.lo:s.hi:s.step]
        raise Unsupported('slice step')
    lo, hi = I.resolve(s.lo), I.resolve(s.hi)
    if isinstance(o, (list, tuple, str)) and not is_sym(lo) and not is_sym(hi):
        return o[lo:hi]
    if isinstance(o, str):
        o = Sym(STR, z3.StringVal(o))
    if isinstance(o, Sym) and o.kind == STR and o.parts is not None:
        from . import strparts as SP
        r = SP.NOTFOUND
        ps0 = o.parts
        if isinstance(hi, int) and hi >= 0 and (lo is None or (isinstance(lo, int) and lo >= 0)) and ps0 \
                and isinstance(ps0[0], str) and len(ps0[0]) >= hi:
            return ps0[0][(lo or 0):hi]
        if hi is None and isinstance(lo, Sym):
            r2 = SP.split_at_registered(I, o, lo)
            if r2 is not SP.NOTFOUND:
                r = r2[1]
        elif (lo is None or lo == 0) and isinstance(hi, Sym) and not isinstance(lo, Sym):
            r2 = SP.split_at_registered(I, o, hi)
            if r2 is not SP.NOTFOUND:
                r = r2[0]
        if r is not SP.NOTFOUND:
            return r
        if isinstance(hi, int) and hi >= 0 and (lo is None or (isinstance(lo, int) and lo >= 0)):
            r = SP.slice_fixed(o, lo or 0, hi)
            if r is not SP.NOTFOUND:
                return r
        if hi is None and isinstance(lo, int) and lo >= 0:
            r = SP.drop_fixed(o, lo)
            if r is not SP.NOTFOUND:
                return r
            r = SP.drop_prefix(o, lo)
        elif lo is None and isinstance(hi, int) and hi < 0:
            r = SP.drop_suffix_to(o, -hi)
        elif isinstance(lo, int) and lo >= 0 and isinstance(hi, Sym):
            # s[k:len(s)-j]
            ht = z3.simplify(hi.t - z3.Length(o.t))
            if z3.is_int_value(ht) and ht.as_long() <= 0:
                r = SP.drop_prefix(o, lo)
                if r is not SP.NOTFOUND:
                    r = SP.drop_suffix_to(r, -ht.as_long()) if not isinstance(r, str) else (r[:len(r) + ht.as_long()] if ht.as_long() else r)
        if r is not SP.NOTFOUND:
            return r
    if isinstance(o, Sym) and o.kind == STR:
        n = Sym(INT, z3.Length(o.t))
        a, b = slice_bounds(I, lo, hi, n)
        ta, tb = I.term(a), I.term(b)
        return Sym(STR, z3.SubString(o.t, ta, z3.If(tb - ta < 0, 0, tb - ta)))
    if isinstance(o, SSeq):
        n = Sym(INT, z3.Length(o.t))
        a, b = slice_bounds(I, lo, hi, n)
        ta, tb = I.term(a), I.term(b)
        return SSeq(z3.Extract(o.t, ta, z3.If(tb - ta < 0, 0, tb - ta)), o.elem)
    if isinstance(o, list):
        raise Unsupported('symbolic slice of a concrete list')
    raise Unsupported(f'slice of {type(o).__name__}')


def reclist_store(I, lst, ti, v):
    """lst[ti] = v for a record list (v: heap object or an element view of a record list); in place"""
    for fname, (kind, arr) in list(lst.fields.items()):
        if kind == 'any':
            continue
        if isinstance(v, RecView):
            fk, farr = v.owner.fields[fname]
            val = z3.Select(farr, I.term(v.i))
        elif isinstance(v, Obj):
            if fname not in v.fields:
                raise Unsupported(f'stored object lacks field {fname}')
            val = elem_term(I, I.resolve(v.fields[fname]), kind)
        else:
            raise Unsupported('store of a non-record into a record list')
        lst.fields[fname] = (kind, z3.Store(arr, ti, val))


def store_subscript(I, o, k, v):
    if isinstance(o, list):
        k = I.resolve(k)
        if isinstance(k, int):
            try:
                o[k] = v
            except IndexError:
                raise PyExc('IndexError')
            return None
        if isinstance(k, SliceVal):
            raise Unsupported('slice assignment')
        i = norm_index(I, k, len(o))
        for j in range(len(o)):
            if I.branch(I.term(i) == j):
                o[j] = v
                return None
        raise PathEnd()
    if isinstance(o, dict):
        if deep_sym(k) or any(deep_sym(x) for x in o):
            # association-list semantics: replace the entry whose key equals k, else add one
            for key in list(o):
                e = eq_term(I, key, k)
                if I.branch(e):
                    o[key] = v
                    return None
            o[k if not isinstance(k, list) else tuple(k)] = v
            return None
        o[hashable(k)] = v
        return None
    if isinstance(o, SArr):
        i = norm_index(I, I.resolve(k), o.n)
        arr_store(I, o, I.term(i), v)
        return None
    if isinstance(o, SRecList):
        i = norm_index(I, I.resolve(k), o.n)
        reclist_store(I, o, I.term(i), I.resolve(v))
        return None
    if isinstance(o, Unknown):
        return None
    if isinstance(o, Obj) and o.cls is not None:
        m = I.repo.find_method(o.cls, '__setitem__')
        if m is not None:
            I.call_func(FuncVal(m, o, m.cls), [k, v], {})
            return None
    raise Unsupported(f'store subscript on {type(o).__name__}')


def delete_subscript(I, o, k):
    if isinstance(o, list):
        if isinstance(k, SliceVal):
            lo, hi = I.resolve(k.lo), I.resolve(k.hi)
            if k.step is not None:
                raise Unsupported('del slice step')
            if is_sym(lo) or is_sym(hi):
                # fork over concrete positions
                lo = concretize_index(I, lo, len(o))
                hi = concretize_index(I, hi, len(o))
            del o[lo:hi]
            return
        k = I.resolve(k)
        if isinstance(k, int):
            try:
                del o[k]
            except IndexError:
                raise PyExc('IndexError')
            return
        i = norm_index(I, k, len(o))
        for j in range(len(o)):
            if I.branch(I.term(i) == j):
                del o[j]
                return
        raise PathEnd()
    if isinstance(o, dict) and not is_sym(k):
        try:
            del o[hashable(k)]
        except KeyError:
            raise PyExc('KeyError')
        return
    raise Unsupported(f'del subscript on {type(o).__name__}')


def concretize_index(I, v, n, lo=None):
    if v is None or isinstance(v, int):
        return v
    for j in range(-n - 1, n + 2):
        if I.branch(I.term(v) == j):
            return j
    raise Unsupported('cannot concretise index')


def comprehension(I, node, fr, kind):
    from .symex import Frame
    out = [] if kind == 'list' else {}

    def rec(gi, f):
        if gi == len(node.generators):
            if kind == 'list':
                out.append(I.eval(node.elt, f))
            else:
                out[hashable(I.eval(node.key, f))] = I.eval(node.value, f)
            return
        g = node.generators[gi]
        items = I.iterate_concrete(I.eval(g.iter, f), allow_dictview=True)
        for x in items:
            sub = Frame(f.func, f.module, {}, cls=f.cls, parent=f)
            I.assign(g.target, x, sub)
            if all(I.truth(I.eval(c, sub)) for c in g.ifs):
                rec(gi + 1, sub)

    rec(0, fr)
    return out


from .libb import *     # noqa: builtins, methods, attributes (second half of this module)
