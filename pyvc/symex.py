"""Symbolic interpreter for the Python subset described in DESIGN.md (section 3), executing the real AST."""
import ast
import datetime as _dt
import z3

from .values import *
from .path import Path, PathEnd, Unsupported
from .source import FuncInfo, ClassInfo
from . import lib


class PyExc(Exception):
    """An exception raised by the interpreted program."""
    def __init__(self, etype, msg=''):
        super().__init__(f'{etype}: {msg}')
        self.etype = etype
        self.msg = msg


class ReturnSig(Exception):
    def __init__(self, value):
        self.value = value


class BreakSig(Exception):
    pass


class ContinueSig(Exception):
    pass


EXC_PARENTS = {
    'ValueError': 'Exception', 'IndexError': 'LookupError', 'KeyError': 'LookupError', 'LookupError': 'Exception',
    'TypeError': 'Exception', 'AttributeError': 'Exception', 'OverflowError': 'ArithmeticError',
    'ZeroDivisionError': 'ArithmeticError', 'ArithmeticError': 'Exception', 'UnboundLocalError': 'NameError',
    'NameError': 'Exception', 'StopIteration': 'Exception', 'Exception': 'BaseException',
    'InvalidOperation': 'ArithmeticError', 'NotImplementedError': 'Exception', 'AssertionError': 'Exception',
}


def exc_matches(etype, handler_name):
    t = etype
    while t is not None:
        if t == handler_name:
            return True
        t = EXC_PARENTS.get(t)
    return False


class Frame:
    def __init__(self, func, module, locals_=None, cls=None, parent=None):
        self.func = func
        self.module = module
        self.locals = locals_ if locals_ is not None else {}
        self.cls = cls
        self.parent = parent      # enclosing frame for lambdas / comprehensions


class LoopSpec:
    def __init__(self, invariant=(), decreases=None, types=None, index=None, modifies=(), ghost=None):
        self.invariant = list(invariant)
        self.decreases = decreases
        self.types = types or {}
        self.index = index
        self.modifies = list(modifies)
        self.ghost = ghost or {}      # ghost variables (name -> sort) created at the loop and updated by ghost hooks


def loop_nodes(func_node):
    out = []
    for n in ast.walk(func_node):
        if isinstance(n, (ast.For, ast.While)):
            out.append(n)
    out.sort(key=lambda n: (n.lineno, n.col_offset))
    return out


def assigned_names(stmts):
    names = []

    def add_target(t):
        if isinstance(t, ast.Name):
            if t.id not in names:
                names.append(t.id)
        elif isinstance(t, (ast.Tuple, ast.List)):
            for e in t.elts:
                add_target(e)
        elif isinstance(t, ast.Starred):
            add_target(t.value)
        elif isinstance(t, ast.Subscript):
            # x[i] = v mutates x
            b = t.value
            if isinstance(b, ast.Name) and b.id not in names:
                names.append(b.id)

    for st in stmts:
        for n in ast.walk(st):
            if isinstance(n, ast.Assign):
                for t in n.targets:
                    add_target(t)
            elif isinstance(n, (ast.AugAssign, ast.AnnAssign)):
                add_target(n.target)
            elif isinstance(n, ast.For):
                add_target(n.target)
            elif isinstance(n, ast.NamedExpr):
                add_target(n.target)
            elif isinstance(n, ast.Delete):
                for t in n.targets:
                    add_target(t)
            elif isinstance(n, ast.Call) and isinstance(n.func, ast.Attribute) and isinstance(n.func.value, ast.Name):
                if n.func.attr in ('append', 'extend', 'insert', 'pop', 'remove', 'clear', 'sort', 'reverse', 'update',
                                   'add', 'discard', 'setdefault'):
                    if n.func.value.id not in names:
                        names.append(n.func.value.id)
    return names


class Interp:
    MAX_DEPTH = 40

    def __init__(self, repo, path, env):
        """env: VerifEnv with contracts (by ident), loop specs, spec-function modules, config."""
        self.repo = repo
        self.p = path
        self.env = env
        self.depth = 0
        self.gcache = {}
        self.noforking = 0
        self.pure_strict = 0
        self.current_contract = None
        self.callstack = []

    # ------------------------------------------------------------------ helpers
    def fresh(self, kind, hint='v'):
        name = self.p.fresh_name(hint)
        if kind == INT:
            return Sym(INT, z3.Int(name))
        if kind == BOOL:
            return Sym(BOOL, z3.Bool(name))
        if kind == REAL:
            return Sym(REAL, z3.Real(name))
        if kind == STR:
            return Sym(STR, z3.String(name))
        raise Unsupported(f'fresh kind {kind}')

    def branch(self, c):
        if isinstance(c, bool):
            return c
        if self.noforking:
            s = z3.simplify(c)
            if z3.is_true(s):
                return True
            if z3.is_false(s):
                return False
            raise Unsupported('fork inside a quantifier body / pure context')
        return self.p.branch(c)

    def unknown(self, reason):
        self.p.taint(reason)
        return Unknown(reason)

    def resolve(self, v):
        """Resolve an optional into None/ABSENT or its payload (forks)."""
        while isinstance(v, SOpt):
            if self.branch(v.isnone):
                return ABSENT if v.absent else None
            v = v.val
        return v

    # ------------------------------------------------------------------ truthiness
    def truth(self, v):
        v = self.resolve(v)
        if v is None or v is ABSENT:
            return False
        if isinstance(v, (bool, int, float, str, list, tuple, dict, set, frozenset)):
            return bool(v)
        if isinstance(v, Sym):
            return self.branch(self.truth_term(v))
        if isinstance(v, (SSeq,)):
            return self.branch(z3.Length(v.t) > 0)
        if isinstance(v, (SArr, SRecList)):
            return self.branch(self.term(v.n) > 0)
        if isinstance(v, STimedelta):
            from . import libdt
            return self.branch(self.term(libdt.td_total(self, v)) != 0)
        if isinstance(v, Unknown):
            b = z3.Bool(self.p.fresh_name('unk'))
            return self.branch(b)
        if isinstance(v, lib.SMap):
            raise Unsupported('truthiness of symbolic map')
        if isinstance(v, lib.PyDecimal):
            return bool(v.value)
        from . import envmodel as E
        if isinstance(v, (E.MatchVal, E.ConfigAttr, E.EnvConfig, E.CompiledPattern)):
            return True
        return True

    def truth_term(self, v):
        """z3 Bool for the truthiness of a scalar (no forking)."""
        if isinstance(v, bool):
            return z3.BoolVal(v)
        if v is None:
            return z3.BoolVal(False)
        if isinstance(v, (int, float, str, list, tuple, dict)):
            return z3.BoolVal(bool(v))
        if isinstance(v, Sym):
            if v.kind == BOOL:
                return v.t
            if v.kind == INT:
                return v.t != 0
            if v.kind == REAL:
                return v.t != 0
            if v.kind == STR:
                return z3.Length(v.t) > 0
        if isinstance(v, SOpt):
            return z3.And(z3.Not(v.isnone), self.truth_term(v.val))
        if isinstance(v, (Obj, SDateTime)):
            return z3.BoolVal(True)
        raise Unsupported(f'truth_term of {type(v).__name__}')

    def term(self, v, kind=None):
        """z3 term of a scalar value."""
        if isinstance(v, Sym):
            if kind == REAL and v.kind == INT:
                return z3.ToReal(v.t)
            return v.t
        if isinstance(v, bool):
            if kind == INT:
                return z3.IntVal(int(v))
            return z3.BoolVal(v)
        if isinstance(v, int):
            if kind == REAL:
                return z3.RealVal(v)
            return z3.IntVal(v)
        if isinstance(v, float):
            return z3.RealVal(repr(v))
        if isinstance(v, str):
            return z3.StringVal(v)
        if isinstance(v, lib.PyDecimal):
            return z3.RealVal(str(v.value))
        raise Unsupported(f'term of {type(v).__name__}')

    def kind_of(self, v):
        if isinstance(v, Sym):
            return v.kind
        if isinstance(v, bool):
            return BOOL
        if isinstance(v, int):
            return INT
        if isinstance(v, float):
            return REAL
        if isinstance(v, str):
            return STR
        if isinstance(v, lib.PyDecimal):
            return REAL
        return None

    # ------------------------------------------------------------------ name resolution
    def lookup_name(self, name, fr):
        f = fr
        while f is not None:
            if name in f.locals:
                return f.locals[name]
            f = f.parent
        # spec functions / contract helpers shadow nothing in the repo: they live in their own modules
        g = self.lookup_global(fr.module, name)
        if g is not lib.NOTFOUND:
            return g
        raise PyExc('NameError', name)

    def lookup_global(self, module, name):
        if module is self.env.spec_module:
            sp = self.env.spec_builtin(name)
            if sp is not None:
                return sp
        if module is not None:
            key = (module.dotted, name)
            if key in self.gcache:
                return self.gcache[key]
            r = None
            if name in module.classes:
                r = ClassVal(module.classes[name])
            elif name in module.functions:
                r = FuncVal(module.functions[name])
            elif name in module.assigns:
                r = self.eval_module_assign(module, name)
            elif name in module.imports:
                mod, attr = module.imports[name]
                r = self.resolve_import(mod, attr)
            else:
                for sm in module.star_imports:
                    rr = self.repo.lookup(sm, name) if self.repo.module(sm) is not None else None
                    if rr is not None:
                        r = self.wrap_lookup(rr)
                        break
                    ext = lib.external(sm, name, self)
                    if ext is not lib.NOTFOUND:
                        r = ext
                        break
            if r is not None:
                self.gcache[key] = r
                return r
        b = lib.builtin(name, self)
        if b is not lib.NOTFOUND:
            return b
        return lib.NOTFOUND

    def wrap_lookup(self, r):
        if isinstance(r, ClassInfo):
            return ClassVal(r)
        if isinstance(r, FuncInfo):
            return FuncVal(r)
        if isinstance(r, tuple):
            if r[0] == 'assign':
                return self.eval_module_assign(r[1], None, r[2])
            if r[0] == 'module':
                return ModuleVal(r[1])
            if r[0] == 'external':
                e = lib.external(r[1], r[2], self)
                if e is lib.NOTFOUND:
                    return self.unknown_static(f'external {r[1]}.{r[2]}')
                return e
        return None

    def unknown_static(self, reason):
        return lib.LazyUnknown(reason)

    def resolve_import(self, mod, attr):
        if attr is None:
            if self.repo.module(mod) is not None:
                return ModuleVal(mod)
            e = lib.external_module(mod, self)
            return e
        if mod is not None and self.repo.module(mod) is not None:
            r = self.repo.lookup(mod, attr)
            if r is not None:
                return self.wrap_lookup(r)
            if self.repo.module(mod + '.' + attr) is not None:
                return ModuleVal(mod + '.' + attr)
            return self.unknown_static(f'import {mod}.{attr}')
        e = lib.external(mod, attr, self)
        if e is lib.NOTFOUND:
            return self.unknown_static(f'external {mod}.{attr}')
        return e

    def eval_module_assign(self, module, name, expr=None):
        if expr is None:
            expr = module.assigns[name]
        fr = Frame(None, module)
        return self.eval(expr, fr)

    # ------------------------------------------------------------------ statements
    def exec_block(self, stmts, fr):
        for st in stmts:
            self.exec_stmt(st, fr)

    def exec_stmt(self, st, fr):
        m = getattr(self, 'st_' + type(st).__name__, None)
        if m is None:
            raise Unsupported(f'statement {type(st).__name__} at line {st.lineno}')
        r = m(st, fr)
        hooks = self.env.ghost_hooks.get(fr.func.ident) if fr.func is not None else None
        if hooks and isinstance(st, (ast.Expr, ast.Assign, ast.AugAssign)):
            seg = self.env.stmt_text(fr.func, st)
            for key, src in hooks.items():
                if key in seg:
                    self.run_ghost(src, fr)
        return r

    def run_ghost(self, src, fr):
        """ghost statements (assignments to ghost variables only) executed in the function's frame"""
        tree = self.env.parse_cache.get(('ghost', src))
        if tree is None:
            tree = ast.parse(src.strip()).body
            self.env.parse_cache[('ghost', src)] = tree
        gfr = self.spec_frame(fr)
        for st in tree:
            if not (isinstance(st, ast.Assign) and len(st.targets) == 1 and isinstance(st.targets[0], ast.Name)):
                raise Unsupported('ghost code must be assignments to ghost variables')
            name = st.targets[0].id
            if name not in getattr(fr, 'ghost_names', ()):
                if name in fr.locals:
                    raise Unsupported(f'ghost assignment to non-ghost variable {name}')
                continue      # the loop that declares this ghost was not cut on this run (concrete iteration): nothing to track
            fr.locals[name] = self.eval(st.value, gfr)

    def st_Expr(self, st, fr):
        if isinstance(st.value, ast.Constant):
            return
        self.eval(st.value, fr)

    def st_Pass(self, st, fr):
        return

    def st_Import(self, st, fr):
        for a in st.names:
            fr.locals[(a.asname or a.name).split('.')[0]] = self.resolve_import(a.name, None)

    def st_ImportFrom(self, st, fr):
        mod = fr.module._resolve_relative(st.module, st.level)
        for a in st.names:
            fr.locals[a.asname or a.name] = self.resolve_import(mod, a.name)

    def st_Return(self, st, fr):
        v = None if st.value is None else self.eval(st.value, fr)
        raise ReturnSig(v)

    def st_Break(self, st, fr):
        raise BreakSig()

    def st_Continue(self, st, fr):
        raise ContinueSig()

    def st_Assert(self, st, fr):
        if not self.truth(self.eval(st.test, fr)):
            raise PyExc('AssertionError')

    def st_Raise(self, st, fr):
        if st.exc is None:
            raise PyExc(getattr(fr, 'handling', 'Exception'))
        e = st.exc
        name = None
        if isinstance(e, ast.Call):
            e = e.func
        if isinstance(e, ast.Name):
            name = e.id
        elif isinstance(e, ast.Attribute):
            name = e.attr
        raise PyExc(name or 'Exception')

    def st_Global(self, st, fr):
        raise Unsupported('global statement')

    def st_Assign(self, st, fr):
        v = self.eval(st.value, fr)
        for t in st.targets:
            self.assign(t, v, fr)

    def st_AnnAssign(self, st, fr):
        if st.value is not None:
            self.assign(st.target, self.eval(st.value, fr), fr)

    def st_AugAssign(self, st, fr):
        t = st.target
        if isinstance(t, ast.Name):
            cur = self.lookup_name(t.id, fr)
            new = self.binop(type(st.op), cur, self.eval(st.value, fr), inplace=True)
            fr.locals[t.id] = new
        elif isinstance(t, ast.Attribute):
            o = self.eval(t.value, fr)
            cur = self.getattr(o, t.attr, fr)
            new = self.binop(type(st.op), cur, self.eval(st.value, fr), inplace=True)
            self.setattr(o, t.attr, new, fr)
        elif isinstance(t, ast.Subscript):
            o = self.eval(t.value, fr)
            k = self.eval_index(t.slice, fr)
            cur = self.subscript(o, k)
            new = self.binop(type(st.op), cur, self.eval(st.value, fr), inplace=True)
            r = self.store_subscript(o, k, new)
            if r is not None and isinstance(t.value, ast.Name):
                fr.locals[t.value.id] = r
        else:
            raise Unsupported('augassign target')

    def st_Delete(self, st, fr):
        for t in st.targets:
            if isinstance(t, ast.Subscript):
                o = self.eval(t.value, fr)
                k = self.eval_index(t.slice, fr)
                lib.delete_subscript(self, o, k)
            elif isinstance(t, ast.Name):
                fr.locals.pop(t.id, None)
            else:
                raise Unsupported('del target')

    def assign(self, t, v, fr):
        if isinstance(t, ast.Name):
            fr.locals[t.id] = v
        elif isinstance(t, (ast.Tuple, ast.List)):
            vals = self.iterate_concrete(v)
            if len(vals) != len(t.elts):
                raise PyExc('ValueError', 'unpack')
            for e, x in zip(t.elts, vals):
                self.assign(e, x, fr)
        elif isinstance(t, ast.Attribute):
            o = self.eval(t.value, fr)
            self.setattr(o, t.attr, v, fr)
        elif isinstance(t, ast.Subscript):
            o = self.eval(t.value, fr)
            k = self.eval_index(t.slice, fr)
            r = self.store_subscript(o, k, v)
            if r is not None:
                # functional update of a symbolic container held in a variable / attribute
                self.assign(t.value, r, fr)
        else:
            raise Unsupported(f'assign target {type(t).__name__}')

    def st_If(self, st, fr):
        if self.truth(self.eval(st.test, fr)):
            self.exec_block(st.body, fr)
        else:
            self.exec_block(st.orelse, fr)

    def st_Try(self, st, fr):
        try:
            try:
                self.exec_block(st.body, fr)
            except PyExc as e:
                for h in st.handlers:
                    names = []
                    if h.type is None:
                        names = ['BaseException']
                    elif isinstance(h.type, ast.Tuple):
                        names = [x.id if isinstance(x, ast.Name) else x.attr for x in h.type.elts]
                    elif isinstance(h.type, ast.Name):
                        names = [h.type.id]
                    elif isinstance(h.type, ast.Attribute):
                        names = [h.type.attr]
                    if any(exc_matches(e.etype, n) for n in names):
                        if h.name:
                            fr.locals[h.name] = lib.ExcValue(e.etype)
                        old = getattr(fr, 'handling', None)
                        fr.handling = e.etype
                        try:
                            self.exec_block(h.body, fr)
                        finally:
                            fr.handling = old
                        break
                else:
                    raise
            else:
                self.exec_block(st.orelse, fr)
        finally:
            if st.finalbody:
                self.exec_block(st.finalbody, fr)

    def st_With(self, st, fr):
        raise Unsupported('with statement')

    def st_FunctionDef(self, st, fr):
        fi = FuncInfo(st, fr.module, None)
        fv = FuncVal(fi)
        fv.closure = fr
        fr.locals[st.name] = fv

    # ----- loops
    def loop_spec(self, node, fr):
        if fr.func is None:
            return None, None
        loops = loop_nodes(fr.func.node)
        ordinal = next((i for i, n in enumerate(loops) if n is node), None)
        cur = self.env.current
        spec = None
        if cur is not None:
            # the contract being verified takes precedence for its own target (several contracts may describe one function)
            if fr.func.ident == cur.target and ordinal in cur.loops:
                spec = cur.loops[ordinal]
            elif (fr.func.ident, ordinal) in cur.loops:
                spec = cur.loops[(fr.func.ident, ordinal)]
            elif fr.func.ident == cur.target and cur.loops.get('__no_global__'):
                return ordinal, None
        if spec is None:
            spec = self.env.loop_specs.get((fr.func.ident, ordinal))
        return ordinal, spec

    def st_While(self, st, fr):
        ordinal, spec = self.loop_spec(st, fr)
        if spec is not None:
            return self.cut_loop(st, fr, ordinal, spec, kind='while')
        # bounded unrolling
        bound = self.env.unroll
        k = 0
        while True:
            if not self.truth(self.eval(st.test, fr)):
                self.exec_block(st.orelse, fr)
                return
            if k >= bound:
                self.p.bounded.append(f'{fr.func.ident if fr.func else "?"} loop#{ordinal} unrolled {bound}x')
                raise Unsupported(f'while loop without invariant at line {st.lineno} (unroll bound {bound} reached)')
            k += 1
            try:
                self.exec_block(st.body, fr)
            except BreakSig:
                return
            except ContinueSig:
                continue

    def st_For(self, st, fr):
        ordinal, spec = self.loop_spec(st, fr)
        it = self.resolve(self.eval(st.iter, fr))
        if spec is not None and not isinstance(it, (list, tuple, range, str, dict)):
            return self.cut_loop(st, fr, ordinal, spec, kind='for', iterable=it)
        if isinstance(it, list):
            # python iterates a list live, by index: removals/insertions during the loop are observed
            idx = 0
            while idx < len(it):
                x = it[idx]
                idx += 1
                self.assign(st.target, x, fr)
                try:
                    self.exec_block(st.body, fr)
                except BreakSig:
                    return
                except ContinueSig:
                    continue
            self.exec_block(st.orelse, fr)
            return
        try:
            items = self.iterate_concrete(it, allow_dictview=True)
        except Unsupported as e:
            raise Unsupported(f'for loop over symbolic iterable without invariant at line {st.lineno}: {e}')
        for x in items:
            self.assign(st.target, x, fr)
            try:
                self.exec_block(st.body, fr)
            except BreakSig:
                return
            except ContinueSig:
                continue
        self.exec_block(st.orelse, fr)

    def iterate_concrete(self, v, allow_dictview=False):
        v = self.resolve(v)
        if isinstance(v, (list, tuple)):
            return list(v)
        if isinstance(v, lib.SymRange):
            lo, hi, step = v.lo, v.hi, v.step
            if all(isinstance(x, int) for x in (lo, hi, step)):
                return list(range(lo, hi, step))
            raise Unsupported('range with symbolic bounds')
        if isinstance(v, range):
            return list(v)
        if isinstance(v, dict):
            return list(v.keys())
        if isinstance(v, str):
            return list(v)
        if isinstance(v, Sym) and v.kind == STR and v.parts is not None:
            from . import strparts
            n = strparts.concrete_len(v)
            if n is not strparts.NOTFOUND:
                return [strparts.char_at(v, i) for i in range(n)]
        if isinstance(v, (set, frozenset)):
            return sorted(v, key=repr)
        if isinstance(v, lib.ConcreteIter):
            return list(v.items)
        if isinstance(v, Obj) and v.cls is not None:
            m = self.repo.find_method(v.cls, '__iter__')
            if m is not None:
                return self.iterate_concrete(self.call_func(FuncVal(m, v, m.cls), [], {}))
        raise Unsupported(f'iteration over {type(v).__name__}')

    def cut_loop(self, st, fr, ordinal, spec, kind, iterable=None):
        """Invariant-based loop cut (assert on entry, havoc, assume, one body execution, assert)."""
        fn = fr.func.ident
        tag = f'{fr.func.qualname}/loop{ordinal}'
        counter = None
        seq = None
        if kind == 'for':
            if isinstance(iterable, lib.SymRange):
                counter = ('range', iterable)
            elif isinstance(iterable, (SSeq, SArr, SRecList, list, tuple, lib.SymEnumerate)):
                counter = ('seq', iterable)
            elif isinstance(iterable, Sym) and iterable.kind == STR:
                counter = ('seq', iterable)       # characters of a symbolic string, by position
            else:
                raise Unsupported(f'invariant-cut for-loop over {type(iterable).__name__}')
        idx_name = spec.index or (st.target.id if kind == 'for' and counter[0] == 'range' and isinstance(st.target, ast.Name) else f'__i{ordinal}')
        enum_index = None
        if (kind == 'for' and counter[0] == 'seq' and isinstance(counter[1], lib.SymEnumerate) and isinstance(st.target, ast.Tuple)
                and st.target.elts and isinstance(st.target.elts[0], ast.Name) and counter[1].start == 0):
            # `for i, x in enumerate(xs)`: the index variable of the code is the loop counter, exactly as in
            # `for i in range(len(xs))` (so an invariant written over i survives this refactoring in either direction)
            enum_index = st.target.elts[0].id
            if spec.index is None:
                idx_name = enum_index
        saved_target = None
        if kind == 'for':
            if counter[0] == 'range':
                fr.locals[idx_name] = counter[1].lo
            else:
                fr.locals[idx_name] = 0
        if spec.ghost:
            fr.ghost_names = set(getattr(fr, 'ghost_names', ())) | set(spec.ghost)
            for gname, gsort in spec.ghost.items():
                if gname not in fr.locals:
                    fr.locals[gname] = lib.make_symbolic(self, gsort, gname)
        # 1. invariant on entry
        for k, clause in enumerate(spec.invariant):
            g = self.formula_src(clause, fr)
            self.p.oblige(f'{tag}/inv-init#{k}', 'inv-init', st.lineno, g, note=clause, func=fn)
        # 2. havoc
        targets = assigned_names(st.body) + list(spec.modifies) + [g for g in spec.ghost]
        if kind == 'for':
            for t in assigned_names([ast.Assign(targets=[st.target], value=ast.Constant(0), lineno=0)]):
                if t not in targets:
                    targets.append(t)
            if idx_name not in targets:
                targets.append(idx_name)
        for name in targets:
            if name in spec.types:
                fr.locals[name] = lib.make_symbolic(self, spec.types[name], name)
            elif name in fr.locals:
                fr.locals[name] = lib.fresh_like(self, fr.locals[name], name)
        # 3. assume invariant (+ counter range: a range counter with positive step never falls below its start)
        for clause in spec.invariant:
            self.p.assume(self.formula_src(clause, fr))
        if kind == 'for':
            lo0 = counter[1].lo if counter[0] == 'range' else 0
            stp = counter[1].step if counter[0] == 'range' else 1
            if isinstance(stp, int) and stp > 0:
                self.p.assume(self.term(fr.locals[idx_name]) >= self.term(lo0))
        # 4. guard
        m0 = None
        if kind == 'while':
            go = self.truth(self.eval(st.test, fr))
        else:
            i = fr.locals[idx_name]
            if counter[0] == 'range':
                r = counter[1]
                if not (isinstance(r.step, int) and r.step != 0):
                    raise Unsupported('range step')
                go = self.truth(self.compare(ast.Lt if r.step > 0 else ast.Gt, i, r.hi))
            else:
                go = self.truth(self.compare(ast.Lt, i, lib.length(self, counter[1])))
        if not go:
            if kind == 'for' and counter[0] == 'range' and isinstance(st.target, ast.Name) and idx_name == st.target.id:
                # python leaves the last produced value in the target; not tracked: poison it
                fr.locals[st.target.id] = lib.Poison(f'for-target {st.target.id} after loop')
            if enum_index is not None and idx_name == enum_index:
                fr.locals[enum_index] = lib.Poison(f'for-target {enum_index} after loop')
            self.exec_block(st.orelse, fr)
            return
        if spec.decreases is not None:
            m0 = self.eval_src(spec.decreases, fr)
        if kind == 'for':
            i = fr.locals[idx_name]
            if counter[0] == 'range':
                self.assign(st.target, i, fr)
                nxt = self.binop(ast.Add, i, counter[1].step)
            else:
                self.assign(st.target, lib.getitem_iter(self, counter[1], i), fr)
                nxt = self.binop(ast.Add, i, 1)
        try:
            self.exec_block(st.body, fr)
        except BreakSig:
            return    # continue after the loop with the state at the break
        except ContinueSig:
            pass
        if kind == 'for':
            fr.locals[idx_name] = nxt
        # 5. preservation
        for k, clause in enumerate(spec.invariant):
            g = self.formula_src(clause, fr)
            self.p.oblige(f'{tag}/inv-preserve#{k}', 'inv-preserve', st.lineno, g, note=clause, func=fn)
        if spec.decreases is not None:
            m1 = self.eval_src(spec.decreases, fr)
            g = z3.And(self.term(m0) >= 0, self.term(m1) < self.term(m0))
            self.p.oblige(f'{tag}/decreases', 'decreases', st.lineno, g, note=spec.decreases, func=fn)
        elif kind == 'while':
            self.p.notes.append(f'{tag}: termination not claimed')
        raise PathEnd()

    # ------------------------------------------------------------------ contract expressions
    def parse_src(self, src):
        key = ('src', src)
        c = self.env.parse_cache.get(key)
        if c is None:
            c = ast.parse(src.strip(), mode='eval').body
            self.env.parse_cache[key] = c
        return c

    def spec_frame(self, fr):
        """Frame for contract expressions: sees the locals of `fr` and, for globals, the spec modules."""
        return Frame(fr.func, self.env.spec_module, {}, cls=fr.cls, parent=_LocalsOnly(fr))

    def eval_src(self, src, fr):
        return self.eval(self.parse_src(src), self.spec_frame(fr))

    def formula_src(self, src, fr):
        """A contract clause as a z3 Bool.  First attempt: one merged formula without forking (total semantics of
        the SMT terms under the clause's own guards); only if some sub-expression needs a fork (calls into spec
        functions with loops, partial library operations) the clause is evaluated with path-splitting and/or/implies."""
        node = self.parse_src(src)
        if not self.noforking:
            saved_pc = len(self.p.pc)
            self.noforking += 1
            try:
                return self.formula(node, self.spec_frame(fr))
            except (PathEnd, KeyboardInterrupt):
                raise
            except Exception:
                pass        # any failure of the merged evaluation (forks needed, partial operation outside its guard): fall back
            finally:
                self.noforking -= 1
        try:
            return self.formula(node, self.spec_frame(fr))
        except PyExc as e:
            if e.etype == 'NameError':
                # the clause names a local of the verified function that no longer exists (renamed / restructured code):
                # a proof-maintenance problem, not an exception of the function under contract
                raise Unsupported(f'contract clause refers to a name the code no longer has ({e}); clause: {src[:80]}')
            raise

    def formula(self, node, fr):
        """Evaluate a boolean contract expression to a z3 Bool.  `implies`, `and`, `or` at this level are
        path-splitting (so partial operations in the consequent are only evaluated where the antecedent holds)."""
        if isinstance(node, ast.BoolOp) and not self.noforking:
            if isinstance(node.op, ast.And):
                acc = []
                for v in node.values:
                    t = self.formula(v, fr)
                    acc.append(t)
                    if v is not node.values[-1]:
                        if not self.branch(t):
                            return z3.BoolVal(False)
                return acc[-1] if acc else z3.BoolVal(True)
            else:
                for v in node.values[:-1]:
                    t = self.formula(v, fr)
                    if self.branch(t):
                        return z3.BoolVal(True)
                return self.formula(node.values[-1], fr)
        if isinstance(node, ast.BoolOp) and self.noforking:
            ts = [self.formula(v, fr) for v in node.values]
            return z3.And(*ts) if isinstance(node.op, ast.And) else z3.Or(*ts)
        if isinstance(node, ast.UnaryOp) and isinstance(node.op, ast.Not):
            return z3.Not(self.formula(node.operand, fr))
        if isinstance(node, ast.Call) and isinstance(node.func, ast.Name):
            fn = node.func.id
            if fn == 'implies':
                a = self.formula(node.args[0], fr)
                if self.noforking:
                    return z3.Implies(a, self.formula(node.args[1], fr))
                if self.branch(a):
                    return self.formula(node.args[1], fr)
                return z3.BoolVal(True)
            if fn == 'iff':
                return self.formula(node.args[0], fr) == self.formula(node.args[1], fr)
            if fn in ('forall', 'exists'):
                return self.quantifier(fn, node, fr)
        v = self.eval(node, fr)
        return self.as_bool_term(v)

    def as_bool_term(self, v):
        if isinstance(v, SOpt):
            v = self.resolve(v)
        if isinstance(v, bool):
            return z3.BoolVal(v)
        if isinstance(v, Sym) and v.kind == BOOL:
            return v.t
        if isinstance(v, Unknown):
            return z3.Bool(self.p.fresh_name('unkgoal'))
        return z3.BoolVal(self.truth(v)) if not isinstance(v, Sym) else self.truth_term(v)

    def quantifier(self, which, node, fr):
        """forall(lambda k: body, lo, hi)  — k ranges over lo <= k < hi (ints).  Body evaluated without forking."""
        lam = node.args[0]
        if not isinstance(lam, ast.Lambda):
            raise Unsupported('quantifier needs a lambda')
        names = [a.arg for a in lam.args.args]
        bounds = [self.eval(a, fr) for a in node.args[1:]]
        if len(bounds) != 2 * len(names):
            raise Unsupported('quantifier bounds: forall(lambda a,b: ..., lo_a, hi_a, lo_b, hi_b)')
        for i in range(len(names)):
            lo, hi = bounds[2 * i], bounds[2 * i + 1]
            if isinstance(lo, int) and isinstance(hi, int) and lo >= hi:
                return z3.BoolVal(which == 'forall')
        # variables with concrete bounds are expanded (finite conjunction / disjunction); the others are quantified
        conc = [i for i in range(len(names)) if isinstance(bounds[2 * i], int) and isinstance(bounds[2 * i + 1], int)]
        import itertools
        size = 1
        for i in conc:
            size *= max(0, bounds[2 * i + 1] - bounds[2 * i])
        if size > 256:
            conc = []
        symb = [i for i in range(len(names)) if i not in conc]
        results = []
        for combo in itertools.product(*[range(bounds[2 * i], bounds[2 * i + 1]) for i in conc]):
            vars_ = []
            rng = []
            sub = Frame(fr.func, fr.module, {}, cls=fr.cls, parent=fr)
            for i, val in zip(conc, combo):
                sub.locals[names[i]] = val
            for i in symb:
                n = names[i]
                v = z3.Int(self.p.fresh_name('q_' + n))
                vars_.append(v)
                sub.locals[n] = Sym(INT, v)
                rng.append(z3.And(self.term(bounds[2 * i]) <= v, v < self.term(bounds[2 * i + 1])))
            self.noforking += 1
            try:
                body = self.formula(lam.body, sub)
            finally:
                self.noforking -= 1
            if not vars_:
                results.append(body)
            elif which == 'forall':
                results.append(z3.ForAll(vars_, z3.Implies(z3.And(*rng), body)))
            else:
                results.append(z3.Exists(vars_, z3.And(*rng, body)))
        if not results:
            return z3.BoolVal(which == 'forall')
        if len(results) == 1:
            return results[0]
        return z3.And(*results) if which == 'forall' else z3.Or(*results)

    # ------------------------------------------------------------------ expressions
    def eval(self, node, fr):
        m = getattr(self, 'ex_' + type(node).__name__, None)
        if m is None:
            raise Unsupported(f'expression {type(node).__name__} at line {getattr(node, "lineno", "?")}')
        return m(node, fr)

    def ex_Constant(self, node, fr):
        return node.value

    def ex_Name(self, node, fr):
        v = self.lookup_name(node.id, fr)
        if isinstance(v, lib.Poison):
            raise Unsupported(f'read of {v.why}')
        if isinstance(v, lib.LazyUnknown):
            return self.unknown(v.reason)
        return v

    def ex_NamedExpr(self, node, fr):
        v = self.eval(node.value, fr)
        self.assign(node.target, v, fr)
        return v

    def ex_Tuple(self, node, fr):
        return tuple(self.eval(e, fr) for e in node.elts)

    def ex_List(self, node, fr):
        out = []
        for e in node.elts:
            if isinstance(e, ast.Starred):
                out.extend(self.iterate_concrete(self.eval(e.value, fr)))
            else:
                out.append(self.eval(e, fr))
        return out

    def ex_Set(self, node, fr):
        vals = [self.eval(e, fr) for e in node.elts]
        if all(isinstance(v, (str, int)) for v in vals):
            return set(vals)
        raise Unsupported('set display with symbolic elements')

    def ex_Dict(self, node, fr):
        d = {}
        for k, v in zip(node.keys, node.values):
            if k is None:
                other = self.eval(v, fr)
                if not isinstance(other, dict):
                    raise Unsupported('dict ** of non-dict')
                d.update(other)
                continue
            kk = self.eval(k, fr)
            if lib.deep_sym(kk):
                lib.store_subscript(self, d, kk, self.eval(v, fr))     # association-list semantics (forks on key equality)
                continue
            d[lib.hashable(kk)] = self.eval(v, fr)
        return d

    def ex_JoinedStr(self, node, fr):
        parts = []
        for v in node.values:
            if isinstance(v, ast.Constant):
                parts.append(v.value)
            else:
                val = self.eval(v.value, fr)
                spec = ''
                if v.format_spec is not None:
                    sp = self.ex_JoinedStr(v.format_spec, fr)
                    if not isinstance(sp, str):
                        raise Unsupported('symbolic format spec')
                    spec = sp
                if v.conversion not in (-1, 115):
                    raise Unsupported('f-string conversion')
                parts.append(lib.format_value(self, val, spec))
        return lib.concat_strs(self, parts)

    def ex_Lambda(self, node, fr):
        return Lambda(node, fr, fr.module)

    def ex_IfExp(self, node, fr):
        if self.noforking:
            c = z3.simplify(self.formula(node.test, fr))
            if z3.is_true(c):
                return self.eval(node.body, fr)
            if z3.is_false(c):
                return self.eval(node.orelse, fr)
            a = self.eval(node.body, fr)
            b = self.eval(node.orelse, fr)
            return lib.ite(self, c, a, b)
        if self.truth(self.eval(node.test, fr)):
            return self.eval(node.body, fr)
        return self.eval(node.orelse, fr)

    def ex_BoolOp(self, node, fr):
        if self.noforking:
            vals = [self.eval(v, fr) for v in node.values]
            if self.pure_strict and not all(isinstance(v, bool) or (isinstance(v, Sym) and v.kind == BOOL) for v in vals):
                raise Unsupported('fork inside a pure call: and/or over non-boolean values')
            ts = [self.as_bool_term(v) for v in vals]
            return Sym(BOOL, z3.And(*ts) if isinstance(node.op, ast.And) else z3.Or(*ts))
        # python value semantics: `a and b` is a if a is falsy else b
        v = None
        for i, e in enumerate(node.values):
            v = self.eval(e, fr)
            if i == len(node.values) - 1:
                return v
            v = self.resolve(v)
            t = self.truth(v)
            if isinstance(node.op, ast.And) and not t:
                return v
            if isinstance(node.op, ast.Or) and t:
                return v
        return v

    def ex_UnaryOp(self, node, fr):
        v = self.resolve(self.eval(node.operand, fr))
        if isinstance(node.op, ast.Not):
            if self.noforking:
                return Sym(BOOL, z3.Not(self.as_bool_term(v)))
            if isinstance(v, Sym) and v.kind == BOOL:
                return Sym(BOOL, z3.Not(v.t))
            return not self.truth(v)
        if isinstance(node.op, ast.USub):
            return self.binop(ast.Sub, 0, v)
        if isinstance(node.op, ast.UAdd):
            return v
        raise Unsupported('unary op')

    def ex_BinOp(self, node, fr):
        a = self.eval(node.left, fr)
        b = self.eval(node.right, fr)
        return self.binop(type(node.op), a, b)

    def ex_Compare(self, node, fr):
        left = self.eval(node.left, fr)
        result = None
        for op, rn in zip(node.ops, node.comparators):
            right = self.eval(rn, fr)
            r = self.compare(type(op), left, right)
            if result is None:
                result = r
            else:
                result = lib.and_(self, result, r)
            if len(node.ops) > 1 and not self.noforking:
                # short-circuit
                if isinstance(r, bool) and not r:
                    return False
            left = right
        return result

    def ex_Attribute(self, node, fr):
        o = self.eval(node.value, fr)
        return self.getattr(o, node.attr, fr)

    def ex_Subscript(self, node, fr):
        o = self.eval(node.value, fr)
        k = self.eval_index(node.slice, fr)
        return self.subscript(o, k)

    def eval_index(self, s, fr):
        if isinstance(s, ast.Slice):
            return lib.SliceVal(None if s.lower is None else self.eval(s.lower, fr),
                                None if s.upper is None else self.eval(s.upper, fr),
                                None if s.step is None else self.eval(s.step, fr))
        return self.eval(s, fr)

    def ex_Yield(self, node, fr):
        f = fr
        while f is not None and '__out' not in f.locals:
            f = f.parent
        if f is None:
            raise Unsupported('yield outside a generator frame')
        v = None if node.value is None else self.eval(node.value, fr)
        out = f.locals['__out']
        if isinstance(out, list):
            out.append(v)
        else:
            lib.call_method(self, out, 'append', [v], {})
        return None

    def ex_Starred(self, node, fr):
        raise Unsupported('starred')

    def ex_ListComp(self, node, fr):
        return lib.comprehension(self, node, fr, 'list')

    def ex_GeneratorExp(self, node, fr):
        return lib.ConcreteIter(lib.comprehension(self, node, fr, 'list'))

    def ex_SetComp(self, node, fr):
        return set(lib.hashable(x) for x in lib.comprehension(self, node, fr, 'list'))

    def ex_DictComp(self, node, fr):
        return lib.comprehension(self, node, fr, 'dict')

    def ex_Call(self, node, fr):
        # contract-language special forms
        if isinstance(node.func, ast.Name) and node.func.id in ('implies', 'forall', 'exists', 'iff') \
                and node.func.id not in fr.locals:
            return Sym(BOOL, self.formula(node, fr))
        if isinstance(node.func, ast.Name) and node.func.id == 'old' and len(node.args) == 1:
            f = fr
            while f is not None:
                if '__old__' in f.locals:
                    return self.eval(node.args[0], Frame(fr.func, fr.module, {}, cls=fr.cls,
                                                         parent=_LocalsOnly(f.locals['__old__'])))
                f = f.parent
            raise Unsupported('old() outside a postcondition')
        if isinstance(node.func, ast.Name) and node.func.id == 'super':
            raise Unsupported('bare super')
        # super().method(...)
        if isinstance(node.func, ast.Attribute) and isinstance(node.func.value, ast.Call) \
                and isinstance(node.func.value.func, ast.Name) and node.func.value.func.id == 'super':
            selfv = fr.locals.get('self')
            cls = fr.cls
            if selfv is None or cls is None:
                raise Unsupported('super() without self')
            mro = self.repo.mro(cls)[1:]
            target = None
            for c in mro:
                if node.func.attr in c.methods:
                    target = FuncVal(c.methods[node.func.attr], selfv, c)
                    break
            args, kwargs = self.eval_args(node, fr)
            if target is None:
                if node.func.attr == '__init__':
                    return None
                raise Unsupported(f'super().{node.func.attr} not found')
            return self.call(target, args, kwargs, node)
        f = self.eval(node.func, fr)
        args, kwargs = self.eval_args(node, fr)
        self.cur_frame = fr
        return self.call(f, args, kwargs, node, fr)

    def eval_args(self, node, fr):
        args = []
        for a in node.args:
            if isinstance(a, ast.Starred):
                args.extend(self.iterate_concrete(self.eval(a.value, fr)))
            else:
                args.append(self.eval(a, fr))
        kwargs = {}
        for k in node.keywords:
            if k.arg is None:
                d = self.eval(k.value, fr)
                if not isinstance(d, dict):
                    raise Unsupported('** of non-dict')
                kwargs.update(d)
            else:
                kwargs[k.arg] = self.eval(k.value, fr)
        return args, kwargs

    # ------------------------------------------------------------------ calls
    def call(self, f, args, kwargs, node=None, fr=None):
        if isinstance(f, lib.LazyUnknown):
            f = self.unknown(f.reason)
        if isinstance(f, Unknown):
            return self.havoc_call(f.reason, args, kwargs)
        if isinstance(f, Builtin):
            return f.fn(self, args, kwargs)
        if isinstance(f, BoundBuiltin):
            return lib.call_method(self, f.recv, f.name, args, kwargs)
        if isinstance(f, Lambda):
            return self.call_lambda(f, args, kwargs)
        if isinstance(f, ClassVal):
            return self.instantiate(f.info, args, kwargs)
        if isinstance(f, FuncVal):
            return self.call_func(f, args, kwargs)
        if isinstance(f, lib.SpecNative):
            return f.call(self, args, kwargs)
        from . import envmodel as E
        if isinstance(f, E.EnvFunc):
            return f.fn(self, args, kwargs)
        if isinstance(f, E.ConfigAttr):
            return self.havoc_call(f'call of configuration member {f.path}', args, kwargs)
        raise Unsupported(f'call of {type(f).__name__} {f!r}')

    def havoc_call(self, reason, args, kwargs):
        # engine havoc: arguments that are heap objects may have been mutated
        for a in list(args) + list(kwargs.values()):
            if isinstance(a, Obj):
                for k in list(a.fields):
                    a.fields[k] = Unknown(f'field {k} after {reason}')
        return self.unknown(f'result of {reason}')

    def call_lambda(self, lam, args, kwargs):
        node = lam.node
        fr = Frame(lam.frame.func, lam.module, {}, cls=lam.frame.cls, parent=lam.frame)
        self.bind_params(node.args, args, kwargs, fr, lam.frame)
        return self.eval(node.body, fr)

    def bind_params(self, a, args, kwargs, fr, defaults_frame):
        params = [x.arg for x in a.posonlyargs + a.args]
        n = len(params)
        args = list(args)
        kwargs = dict(kwargs)
        for i, name in enumerate(params):
            if i < len(args):
                fr.locals[name] = args[i]
            elif name in kwargs:
                fr.locals[name] = kwargs.pop(name)
            else:
                di = i - (n - len(a.defaults))
                if di < 0:
                    raise PyExc('TypeError', f'missing argument {name}')
                fr.locals[name] = self.eval(a.defaults[di], defaults_frame)
        if len(args) > n:
            if a.vararg is None:
                raise PyExc('TypeError', 'too many positional arguments')
            fr.locals[a.vararg.arg] = tuple(args[n:])
        elif a.vararg is not None:
            fr.locals[a.vararg.arg] = ()
        for i, ko in enumerate(a.kwonlyargs):
            if ko.arg in kwargs:
                fr.locals[ko.arg] = kwargs.pop(ko.arg)
            elif a.kw_defaults[i] is not None:
                fr.locals[ko.arg] = self.eval(a.kw_defaults[i], defaults_frame)
            else:
                raise PyExc('TypeError', f'missing kw-only {ko.arg}')
        if kwargs:
            if a.kwarg is None:
                raise PyExc('TypeError', f'unexpected keyword {list(kwargs)}')
            fr.locals[a.kwarg.arg] = kwargs
        elif a.kwarg is not None:
            fr.locals[a.kwarg.arg] = {}

    def call_func(self, fv, args, kwargs):
        fi = fv.info
        if fv.self_val is not None:
            args = [fv.self_val] + list(args)
        # modular call through a contract?
        c = self.env.callee_contract(fi.ident, self)
        if c is not None:
            return self.env.apply_contract(self, c, fi, args, kwargs)
        if 'abstractmethod' in fi.decorators:
            raise Unsupported(f'call of abstract method {fi.qualname}')
        if 'dispatch' in fi.decorators and fi.cls is not None:
            # multipledispatch: the overload is chosen by the number of positional arguments (types are not examined;
            # the repository's overloads differ in arity)
            npos = len(args) - (1 if fv.self_val is not None else 0)
            cands = []
            for cand in fi.cls.overloads.get(fi.name, [fi]):
                for dec in cand.node.decorator_list:
                    if isinstance(dec, ast.Call) and getattr(dec.func, 'id', None) == 'dispatch' and len(dec.args) == npos:
                        cands.append(cand)
            if len(cands) != 1 or kwargs:
                raise Unsupported(f'@dispatch overload of {fi.qualname} for {npos} arguments')
            fi = cands[0]
        for d in fi.decorators:
            if d == 'dispatch':
                continue
            if d not in ('staticmethod', 'classmethod', 'property', 'setter', 'abstractmethod') \
                    and d not in self.env.transparent_decorators:
                raise Unsupported(f'decorator @{d} on {fi.qualname}')
        if self.depth >= self.MAX_DEPTH:
            raise Unsupported(f'call depth exceeded at {fi.qualname}')
        if self.callstack.count(fi.ident) >= self.env.max_recursion:
            raise Unsupported(f'recursion in {fi.qualname} (needs a contract)')
        defcls = fv.defcls or fi.cls
        closure = getattr(fv, 'closure', None)
        fr = Frame(fi, fi.module, {}, cls=defcls, parent=closure)
        self.bind_params(fi.node.args, args, kwargs, fr, Frame(None, fi.module, {}, cls=defcls, parent=closure))
        if self.depth == 0 and getattr(self, 'top_old', None) is not None:
            fr.locals['__old__'] = self.top_old       # old(...) is available in loop invariants of the verified function
        is_gen = _is_generator(fi.node)
        if is_gen:
            # generators are run eagerly: every `yield v` appends v to the ghost output list __out, which is returned
            fr.locals['__out'] = []
        if not self.noforking and not is_gen and _simple_pure(fi.node):
            # straight-line boolean/arithmetic helper: evaluate without forking (one merged term) when possible
            saved = (len(self.p.pc), self.p.idx, len(self.p.taken))
            fr2 = Frame(fi, fi.module, dict(fr.locals), cls=defcls, parent=closure)
            self.noforking += 1
            self.pure_strict += 1
            self.depth += 1
            self.callstack.append(fi.ident)
            try:
                self.exec_block(fi.node.body, fr2)
                return None
            except ReturnSig as r:
                return r.value
            except Unsupported as e:
                if 'fork inside' not in str(e):
                    raise
            finally:
                self.noforking -= 1
                self.pure_strict -= 1
                self.depth -= 1
                self.callstack.pop()
        self.depth += 1
        self.callstack.append(fi.ident)
        try:
            self.exec_block(fi.node.body, fr)
            return fr.locals['__out'] if is_gen else None
        except ReturnSig as r:
            return fr.locals['__out'] if is_gen else r.value
        finally:
            self.depth -= 1
            self.callstack.pop()
            if self.depth == 0:
                # ghost variables of the verified function stay visible to its postcondition
                self.top_ghosts = {g: fr.locals[g] for g in getattr(fr, 'ghost_names', ()) if g in fr.locals}

    def instantiate(self, cls, args, kwargs):
        special = lib.special_class(self, cls, args, kwargs)
        if special is not lib.NOTFOUND:
            return special
        o = Obj(cls, {}, label=f'{cls.name}@{self.p.fresh_name("o")}')
        init = self.repo.find_method(cls, '__init__')
        if init is not None:
            self.call_func(FuncVal(init, o, init.cls), args, kwargs)
        elif args or kwargs:
            bases_external = any(not isinstance(self.repo.lookup(cls.module.dotted, getattr(b, 'id', getattr(b, 'attr', ''))), ClassInfo)
                                 for b in cls.base_exprs)
            if bases_external:
                raise Unsupported(f'constructor of {cls.name} inherited from an external base')
            raise PyExc('TypeError', f'{cls.name}() takes no arguments')
        return o

    # ------------------------------------------------------------------ attributes
    def getattr(self, o, name, fr=None):
        o = self.resolve(o)
        if isinstance(o, Obj):
            cls = o.cls
            if cls is not None:
                g = self.repo.find_method(cls, name, kinds=('getters',))
                if g is not None:
                    return self.call_func(FuncVal(g, o, g.cls), [], {})
            if name in o.fields:
                v = o.fields[name]
                if isinstance(v, SOpt) and v.absent:
                    v = self.resolve(v)
                    if v is ABSENT:
                        raise PyExc('AttributeError', name)
                if isinstance(v, lib.LazyField):
                    v = v.force(self)
                    o.fields[name] = v
                return v
            if cls is not None:
                mname = name
                m = None
                if name.startswith('__') and not name.endswith('__') and fr is not None and fr.cls is not None:
                    m = fr.cls.methods.get(name)
                    if m is not None:
                        if m.kind == 'staticmethod':
                            return FuncVal(m, None, fr.cls)
                        if m.kind == 'classmethod':
                            return FuncVal(m, ClassVal(fr.cls), fr.cls)
                        return FuncVal(m, o, fr.cls)
                m = self.repo.find_method(cls, mname)
                if m is not None:
                    if m.kind == 'staticmethod':
                        return FuncVal(m, None, m.cls)
                    if m.kind == 'classmethod':
                        return FuncVal(m, ClassVal(cls), m.cls)
                    return FuncVal(m, o, m.cls)
                ca = self.repo.find_class_assign(cls, name)
                if ca is not None:
                    return self.class_attr(ca[0], name)
            if o.cls is None and getattr(o, 'open', False):
                return self.unknown(f'attribute {name} of opaque object')
            raise PyExc('AttributeError', f'{o!r}.{name}')
        if isinstance(o, ClassVal):
            cls = o.info
            if name.startswith('__') and not name.endswith('__') and fr is not None and fr.cls is not None:
                m = fr.cls.methods.get(name)
                if m is not None:
                    return FuncVal(m, None if m.kind == 'staticmethod' else (o if m.kind == 'classmethod' else None), fr.cls)
            m = self.repo.find_method(cls, name)
            if m is not None:
                if m.kind == 'classmethod':
                    return FuncVal(m, o, m.cls)
                return FuncVal(m, None, m.cls)
            ca = self.repo.find_class_assign(cls, name)
            if ca is not None:
                if any(isinstance(b, ast.Name) and b.id == 'Enum' for b in ca[0].base_exprs) and not name.startswith('_'):
                    return EnumMember.of(ca[0], name, self.class_attr(ca[0], name))      # plain Enum: not an int
                return self.class_attr(ca[0], name)
            e = lib.enum_member(self, cls, name)
            if e is not lib.NOTFOUND:
                return e
            raise PyExc('AttributeError', f'{cls.name}.{name}')
        if isinstance(o, ModuleVal):
            r = self.repo.lookup(o.dotted, name)
            if r is None:
                sub = self.repo.module(o.dotted + '.' + name)
                if sub is not None:
                    return ModuleVal(o.dotted + '.' + name)
                raise PyExc('AttributeError', f'{o.dotted}.{name}')
            w = self.wrap_lookup(r)
            if isinstance(w, lib.LazyUnknown):
                return self.unknown(w.reason)
            return w
        if isinstance(o, Unknown):
            return self.unknown(f'{o.reason}.{name}')
        if isinstance(o, lib.RecView):
            cls = o.owner.cls
            if cls is not None:
                if isinstance(cls, str):
                    cls = self.repo.find(cls)
                g = self.repo.find_method(cls, name, kinds=('getters',))
                if g is not None:
                    return self.call_func(FuncVal(g, o, g.cls), [], {})
        return lib.get_attribute(self, o, name)

    def class_attr(self, cls, name):
        key = ('cls', cls.module.dotted, cls.name, name)
        if key in self.gcache:
            return self.gcache[key]
        fr = Frame(None, cls.module, {}, cls=cls)
        # class-body names are visible while evaluating class-level assignments
        fr.parent = _ClassScope(self, cls)
        v = self.eval(cls.assigns[name], fr)
        self.gcache[key] = v
        return v

    def setattr(self, o, name, v, fr=None):
        o = self.resolve(o)
        if isinstance(o, Obj):
            if o.frozen:
                raise Unsupported(f'write to {o!r}.{name} after it escaped into a symbolic list')
            if o.cls is not None:
                s = self.repo.find_method(o.cls, name, kinds=('setters',))
                if s is not None:
                    self.call_func(FuncVal(s, o, s.cls), [v], {})
                    return
                g = self.repo.find_method(o.cls, name, kinds=('getters',))
                if g is not None:
                    raise PyExc('AttributeError', f'can\'t set attribute {name}')
            o.fields[name] = v
            return
        if isinstance(o, ClassVal):
            raise Unsupported(f'write to class attribute {o.info.name}.{name}')
        if isinstance(o, Unknown):
            return
        raise Unsupported(f'setattr on {type(o).__name__}')

    # ------------------------------------------------------------------ operators (delegated)
    def binop(self, op, a, b, inplace=False):
        return lib.binop(self, op, self.resolve(a), self.resolve(b), inplace)

    def compare(self, op, a, b):
        return lib.compare(self, op, a, b)

    def subscript(self, o, k):
        return lib.subscript(self, self.resolve(o), k)

    def store_subscript(self, o, k, v):
        return lib.store_subscript(self, self.resolve(o), k, v)


class _LocalsOnly:
    """Adapter: exposes a frame's locals (and its lexical parents) as a parent scope."""
    def __init__(self, fr):
        self.fr = fr

    @property
    def locals(self):
        return self.fr.locals

    @property
    def parent(self):
        p = self.fr.parent
        return p


class _ClassScope:
    """Scope that resolves names against class-level assignments (for class bodies)."""
    def __init__(self, interp, cls):
        self.interp = interp
        self.cls = cls
        self.parent = None

    @property
    def locals(self):
        return _ClassLocals(self.interp, self.cls)


class _ClassLocals:
    def __init__(self, interp, cls):
        self.interp = interp
        self.cls = cls

    def __contains__(self, name):
        return name in self.cls.assigns

    def __getitem__(self, name):
        return self.interp.class_attr(self.cls, name)

    def get(self, name, default=None):
        return self[name] if name in self else default


_SIMPLE_CACHE = {}


def _simple_pure(fnode):
    """straight-line function: assignments of expressions and a final return (no loops, ifs, try, calls that store)"""
    k = id(fnode)
    if k in _SIMPLE_CACHE:
        return _SIMPLE_CACHE[k]
    ok = True
    body = fnode.body
    for st in body:
        if isinstance(st, ast.Expr) and isinstance(st.value, ast.Constant):
            continue
        if isinstance(st, ast.Return):
            continue
        if isinstance(st, ast.Assign) and all(isinstance(t, ast.Name) for t in st.targets):
            continue
        ok = False
        break
    if ok and not any(isinstance(st, ast.Return) for st in body):
        ok = False
    if ok:
        for n in ast.walk(fnode):
            if isinstance(n, (ast.Lambda, ast.ListComp, ast.GeneratorExp, ast.DictComp, ast.SetComp, ast.NamedExpr, ast.JoinedStr)):
                ok = False
                break
    _SIMPLE_CACHE[k] = ok
    return ok


def _is_generator(fnode):
    for n in ast.walk(fnode):
        if isinstance(n, (ast.Yield, ast.YieldFrom)):
            # make sure it belongs to this function, not a nested one
            return True
    return False
