"""Turning a solver model into concrete Python inputs for replay on the real code."""
import datetime as _dt
import z3

from .values import *


class NotConstructible(Exception):
    pass


def _ev(model, t):
    return model.eval(t, model_completion=True)


def scalar(model, v):
    if not isinstance(v, Sym):
        return v
    r = _ev(model, v.t)
    if v.kind == INT:
        return r.as_long()
    if v.kind == BOOL:
        return z3.is_true(r)
    if v.kind == STR:
        return r.as_string() if z3.is_string_value(r) else str(r)
    if v.kind == REAL:
        try:
            f = r.as_fraction()
            return {'__real__': [f.numerator, f.denominator]}
        except Exception:
            return {'__real__': str(r)}
    raise NotConstructible(v.kind)


def concretize(model, v):
    from . import lib
    if isinstance(v, Sym):
        return scalar(model, v)
    if isinstance(v, SOpt):
        if z3.is_true(_ev(model, v.isnone)):
            return {'__absent__': True} if v.absent else None
        return concretize(model, v.val)
    if isinstance(v, SDateTime):
        o = scalar(model, v.ord) if isinstance(v.ord, Sym) else v.ord
        s = scalar(model, v.sec) if isinstance(v.sec, Sym) else v.sec
        try:
            d = _dt.date.fromordinal(o)
        except Exception:
            raise NotConstructible('ordinal out of range')
        return {'__dt__': [d.year, d.month, d.day, s // 3600, s % 3600 // 60, s % 60], 'is_date': v.is_date}
    if isinstance(v, STimedelta):
        return {'__td__': concretize(model, v.days) * 86400 + concretize(model, v.secs)}
    if isinstance(v, Obj):
        if v.cls is None:
            return {'__opaque__': v.label}
        return {'__obj__': f'{v.cls.module.relpath}::{v.cls.name}',
                'fields': {k: concretize(model, x) for k, x in v.fields.items()}}
    if isinstance(v, list):
        return [concretize(model, x) for x in v]
    if isinstance(v, tuple):
        return {'__tuple__': [concretize(model, x) for x in v]}
    if isinstance(v, dict):
        return {'__dict__': [[concretize(model, k), concretize(model, x)] for k, x in v.items()]}
    if isinstance(v, SSeq):
        r = _ev(model, v.t)
        n = _ev(model, z3.Length(v.t)).as_long()
        out = []
        for i in range(n):
            e = _ev(model, v.t[i])
            out.append(_elem(model, e, v.elem))
        return out
    if isinstance(v, SArr):
        n = scalar(model, v.n) if isinstance(v.n, Sym) else v.n
        if v.elem == 'dt':
            out = []
            for i in range(min(n, 64)):
                o = _ev(model, z3.Select(v.arr, i)).as_long()
                s = _ev(model, z3.Select(v.arr2, i)).as_long()
                d = _dt.date.fromordinal(o)
                out.append({'__dt__': [d.year, d.month, d.day, s // 3600, s % 3600 // 60, s % 60]})
            return out
        return [_elem(model, _ev(model, z3.Select(v.arr, i)), v.elem) for i in range(min(n, 64))]
    if isinstance(v, SRecList):
        n = scalar(model, v.n) if isinstance(v.n, Sym) else v.n
        out = []
        for i in range(min(n, 64)):
            out.append({k: _elem(model, _ev(model, z3.Select(arr, i)), kind) for k, (kind, arr) in v.fields.items()})
        return {'__reclist__': out, 'cls': v.cls}
    if isinstance(v, (int, str, bool, float)) or v is None:
        return v
    if isinstance(v, lib.SMap):
        raise NotConstructible('symbolic map')
    if isinstance(v, lib.PyDecimal):
        return {'__decimal__': str(v.value)}
    raise NotConstructible(type(v).__name__)


def _elem(model, e, kind):
    if kind == 'dt':
        t = e.as_long()
        o, s = divmod(t, 86400)
        d = _dt.date.fromordinal(o)
        return {'__dt__': [d.year, d.month, d.day, s // 3600, s % 3600 // 60, s % 60]}
    if kind == INT:
        return e.as_long()
    if kind == BOOL:
        return z3.is_true(e)
    if kind == STR:
        return e.as_string()
    return str(e)
