"""Turning a solver model into concrete Python inputs for replay on the real code."""
import datetime as _dt
import z3

from .values import *


class NotConstructible(Exception):
    pass


def _unescape(s):
    import re
    return re.sub(r'\\u\{([0-9a-fA-F]+)\}', lambda m: chr(int(m.group(1), 16)), s)


def _ev(model, t):
    return model.eval(t, model_completion=True)


def scalar(model, v):
    if not isinstance(v, Sym):
        return v
    r = _ev(model, v.t)
    if v.kind == INT:
        return r.as_long()
    if v.kind == BOOL:
        return z3.is_true(r)
    if v.kind == STR:
        return _unescape(r.as_string()) if z3.is_string_value(r) else str(r)
    if v.kind == REAL:
        try:
            f = r.as_fraction()
            return {'__real__': [f.numerator, f.denominator]}
        except Exception:
            return {'__real__': str(r)}
    raise NotConstructible(v.kind)


def concretize(model, v):
    from . import lib
    if isinstance(v, Sym):
        return scalar(model, v)
    if isinstance(v, SOpt):
        if z3.is_true(_ev(model, v.isnone)):
            return {'__absent__': True} if v.absent else None
        return concretize(model, v.val)
    if isinstance(v, SDateTime):
        o = scalar(model, v.ord) if isinstance(v.ord, Sym) else v.ord
        s = scalar(model, v.sec) if isinstance(v.sec, Sym) else v.sec
        try:
            d = _dt.date.fromordinal(o)
        except Exception:
            raise NotConstructible('ordinal out of range')
        return {'__dt__': [d.year, d.month, d.day, s // 3600, s % 3600 // 60, s % 60], 'is_date': v.is_date}
    if isinstance(v, STimedelta):
        return {'__td__': concretize(model, v.days) * 86400 + concretize(model, v.secs)}
    if isinstance(v, Obj):
        if v.cls is None:
            return {'__opaque__': v.label}
        return {'__obj__': f'{v.cls.module.relpath}::{v.cls.name}',
                'fields': {k: concretize(model, x) for k, x in v.fields.items()}}
    if isinstance(v, list):
        return [concretize(model, x) for x in v]
    if isinstance(v, tuple):
        return {'__tuple__': [concretize(model, x) for x in v]}
    if isinstance(v, dict):
        return {'__dict__': [[concretize(model, k), concretize(model, x)] for k, x in v.items()]}
    if isinstance(v, SSeq):
        r = _ev(model, v.t)
        n = _ev(model, z3.Length(v.t)).as_long()
        out = []
        for i in range(n):
            e = _ev(model, v.t[i])
            out.append(_elem(model, e, v.elem))
        return out
    if isinstance(v, SArr):
        n = scalar(model, v.n) if isinstance(v.n, Sym) else v.n
        if v.elem == 'dt':
            out = []
            for i in range(min(n, 64)):
                o = _ev(model, z3.Select(v.arr, i)).as_long()
                s = _ev(model, z3.Select(v.arr2, i)).as_long()
                d = _dt.date.fromordinal(o)
                out.append({'__dt__': [d.year, d.month, d.day, s // 3600, s % 3600 // 60, s % 60]})
            return out
        return [_elem(model, _ev(model, z3.Select(v.arr, i)), v.elem) for i in range(min(n, 64))]
    if isinstance(v, SRecList):
        n = scalar(model, v.n) if isinstance(v.n, Sym) else v.n
        out = []
        for i in range(min(n, 64)):
            out.append({k: _elem(model, _ev(model, z3.Select(arr, i)), kind) for k, (kind, arr) in v.fields.items()})
        return {'__reclist__': out, 'cls': v.cls}
    if isinstance(v, (int, str, bool, float)) or v is None:
        return v
    if isinstance(v, EnumMember):
        return {'__enum__': f'{v.cls.module.relpath}::{v.cls.name}', 'name': v.name}
    if isinstance(v, lib.SMap):
        return smap(model, v)
    from . import envmodel as E
    if isinstance(v, E.EnvConfig):
        out = {'__config__': v.name, 'tables': {}, 'values': {}, 'funcs': {}}
        for k, t in v.tables.items():
            out['tables'][k] = concretize(model, t)
        for k, x in v.values.items():
            out['values'][k] = concretize(model, x)
        for k, f in v.funcs.items():
            if hasattr(f, 'calls'):
                out['funcs'][k] = {'returns': [concretize(model, x) for x in f.calls]}
            else:
                out['funcs'][k] = func_interp(model, getattr(f, 'uf', None))
        return out
    if isinstance(v, E.MatchVal):
        return {'__match__': True, 'string': concretize(model, v.string), 'start': concretize(model, v.start),
                'end': concretize(model, v.end), 'groups': {str(k): concretize(model, g) for k, g in v.groups.items()},
                'full': v.full}
    if isinstance(v, (E.ConfigAttr, E.CompiledPattern)):
        return {'__opaque__': repr(v)}
    if isinstance(v, lib.PyDecimal):
        return {'__decimal__': str(v.value)}
    raise NotConstructible(type(v).__name__)


def _elem(model, e, kind):
    if kind == 'dt':
        t = e.as_long()
        o, s = divmod(t, 86400)
        d = _dt.date.fromordinal(o)
        return {'__dt__': [d.year, d.month, d.day, s // 3600, s % 3600 // 60, s % 60]}
    if kind == INT:
        return e.as_long()
    if kind == BOOL:
        return z3.is_true(e)
    if kind == STR:
        return e.as_string()
    return str(e)


def _pyval(r):
    if z3.is_int_value(r):
        return r.as_long()
    if z3.is_string_value(r):
        return r.as_string()
    if z3.is_true(r):
        return True
    if z3.is_false(r):
        return False
    if z3.is_rational_value(r):
        f = r.as_fraction()
        return {'__real__': [f.numerator, f.denominator]}
    return str(r)


def func_interp(model, decl):
    """finite description of an uninterpreted function in the model: {'entries': [[args..., value]], 'else': v}"""
    if decl is None or not hasattr(model, 'decls'):
        return {'entries': [], 'else': None}
    try:
        fi = model[decl]
    except Exception:
        fi = None
    if fi is None:
        return {'entries': [], 'else': None}
    entries = []
    try:
        for i in range(fi.num_entries()):
            e = fi.entry(i)
            entries.append([_pyval(e.arg_value(j)) for j in range(e.num_args())] + [_pyval(e.value())])
        els = fi.else_value()
        els = _pyval(els) if els is not None and (z3.is_int_value(els) or z3.is_string_value(els) or z3.is_true(els) or z3.is_false(els)) else None
    except Exception:
        els = None
    return {'entries': entries, 'else': els}


def smap(model, m):
    has = getattr(m, 'has_decl', None)
    get = getattr(m, 'get_decl', None)
    h = func_interp(model, has) if has is not None else {'entries': [], 'else': True}
    g = func_interp(model, get)
    keys = {e[0] for e in h['entries']} | {e[0] for e in g['entries']}
    table = {}
    for k in sorted(keys, key=repr):
        kt = z3.StringVal(k) if isinstance(k, str) else z3.IntVal(k)
        present = True if has is None else z3.is_true(model.eval(has(kt), model_completion=True))
        if present:
            table[k] = _pyval(model.eval(get(kt), model_completion=True))
    return {'__table__': [[k, v] for k, v in table.items()], 'default_present': bool(h['else']) if has is not None else True,
            'default_value': g['else']}
