"""Sort descriptions used by contracts to declare symbolic inputs / havoc types."""
import z3

from .values import *
from .path import Unsupported


class Sort:
    pass


class Int(Sort):
    def __init__(self, lo=None, hi=None):
        self.lo, self.hi = lo, hi


class Bool(Sort):
    pass


class Real(Sort):
    def __init__(self, lo=None, hi=None):
        self.lo, self.hi = lo, hi


class Str(Sort):
    def __init__(self, maxlen=None):
        self.maxlen = maxlen


class Opt(Sort):
    def __init__(self, inner, absent=False):
        self.inner = inner
        self.absent = absent


class DateTime(Sort):
    def __init__(self, lo_year=1, hi_year=9999, midnight=False):
        self.lo_year, self.hi_year, self.midnight = lo_year, hi_year, midnight


class Rec(Sort):
    """An object of a repository class with the given field sorts (fields not listed are absent).
    ident: 'relpath::Class'.  If `init` is given, the object is built by calling the real constructor with
    symbolic arguments of those sorts instead."""
    def __init__(self, ident, fields=None, init=None):
        self.ident = ident
        self.fields = fields or {}
        self.init = init


class Const(Sort):
    def __init__(self, value):
        self.value = value


class ListOf(Sort):
    """A list of concrete length n with symbolic elements."""
    def __init__(self, inner, n):
        self.inner, self.n = inner, n


class TupleOf(Sort):
    def __init__(self, *inner):
        self.inner = inner


class Seq(Sort):
    """Symbolic-length list of scalars ('int' | 'bool' | 'str' | 'dt')."""
    def __init__(self, elem):
        self.elem = elem


class Arr(Sort):
    def __init__(self, elem):
        self.elem = elem


class RecList(Sort):
    """Symbolic-length list of records (struct of arrays): fields name -> kind."""
    def __init__(self, fields, cls=None):
        self.fields, self.cls = fields, cls


class Map(Sort):
    """Configuration table as an environment value: total function + membership predicate."""
    def __init__(self, keykind, valkind, val_lo=None, val_hi=None):
        self.keykind, self.valkind, self.val_lo, self.val_hi = keykind, valkind, val_lo, val_hi


class Opaque(Sort):
    """An object the function only passes around (never inspected)."""
    pass


def build(I, sort, hint):
    from . import libdt, lib
    if isinstance(sort, Int):
        v = I.fresh(INT, hint)
        if sort.lo is not None:
            I.p.assume(v.t >= sort.lo)
        if sort.hi is not None:
            I.p.assume(v.t <= sort.hi)
        return v
    if isinstance(sort, Bool):
        return I.fresh(BOOL, hint)
    if isinstance(sort, Real):
        v = I.fresh(REAL, hint)
        if sort.lo is not None:
            I.p.assume(v.t >= sort.lo)
        if sort.hi is not None:
            I.p.assume(v.t <= sort.hi)
        return v
    if isinstance(sort, Str):
        v = I.fresh(STR, hint)
        if sort.maxlen is not None:
            I.p.assume(z3.Length(v.t) <= sort.maxlen)
        return v
    if isinstance(sort, Opt):
        return SOpt(z3.Bool(I.p.fresh_name(hint + '_isnone')), build(I, sort.inner, hint), sort.absent)
    if isinstance(sort, DateTime):
        d = libdt.fresh_datetime(I, hint, sort.lo_year, sort.hi_year)
        if sort.midnight:
            I.p.assume(I.term(d.sec) == 0)
        return d
    if isinstance(sort, Const):
        return sort.value
    if isinstance(sort, Rec):
        cls = I.repo.find(sort.ident)
        if sort.init is not None:
            kwargs = {k: build(I, s, f'{hint}_{k}') for k, s in sort.init.items()}
            return I.instantiate(cls, [], kwargs)
        o = Obj(cls, {}, label=hint)
        for k, s in sort.fields.items():
            o.fields[k] = build(I, s, f'{hint}_{k}')
        return o
    if isinstance(sort, ListOf):
        return [build(I, sort.inner, f'{hint}{i}') for i in range(sort.n)]
    if isinstance(sort, TupleOf):
        return tuple(build(I, s, f'{hint}{i}') for i, s in enumerate(sort.inner))
    if isinstance(sort, Seq):
        return SSeq(z3.Const(I.p.fresh_name(hint), lib.seq_sort(sort.elem)), sort.elem)
    if isinstance(sort, Arr):
        n = I.fresh(INT, hint + '_n')
        I.p.assume(n.t >= 0)
        es = z3.IntSort() if sort.elem == 'dt' else sort_of(sort.elem)
        return SArr(z3.Const(I.p.fresh_name(hint), z3.ArraySort(z3.IntSort(), es)), n, sort.elem)
    if isinstance(sort, RecList):
        n = I.fresh(INT, hint + '_n')
        I.p.assume(n.t >= 0)
        fields = {}
        for k, kind in sort.fields.items():
            es = z3.IntSort() if kind == 'dt' else sort_of(kind)
            fields[k] = (kind, z3.Const(I.p.fresh_name(f'{hint}_{k}'), z3.ArraySort(z3.IntSort(), es)))
        return SRecList(n, fields, sort.cls)
    if isinstance(sort, Map):
        ks, vs = sort_of(sort.keykind), sort_of(sort.valkind)
        has = z3.Function(I.p.fresh_name(hint + '_has'), ks, z3.BoolSort())
        get = z3.Function(I.p.fresh_name(hint + '_get'), ks, vs)
        m = lib.SMap(hint, sort.keykind, sort.valkind, has, get)
        if sort.val_lo is not None or sort.val_hi is not None:
            k = z3.Const(I.p.fresh_name('k'), ks)
            body = []
            if sort.val_lo is not None:
                body.append(get(k) >= sort.val_lo)
            if sort.val_hi is not None:
                body.append(get(k) <= sort.val_hi)
            I.p.assume(z3.ForAll([k], z3.And(*body)))
        return m
    if isinstance(sort, Opaque):
        o = Obj(None, {}, label=hint)
        return o
    raise Unsupported(f'sort {sort!r}')
