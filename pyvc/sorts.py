"""Sort descriptions used by contracts to declare symbolic inputs / havoc types."""
import z3

from .values import *
from .path import Unsupported


class Sort:
    pass


class Int(Sort):
    def __init__(self, lo=None, hi=None):
        self.lo, self.hi = lo, hi


class Bool(Sort):
    pass


class Real(Sort):
    def __init__(self, lo=None, hi=None):
        self.lo, self.hi = lo, hi


class Str(Sort):
    def __init__(self, maxlen=None):
        self.maxlen = maxlen


class Word(Sort):
    """A string of lower-case ASCII letters [a-z]* (structured piece: split/strip/lower shortcuts apply)."""
    def __init__(self, minlen=0, maxlen=None):
        self.minlen, self.maxlen = minlen, maxlen


class Opt(Sort):
    def __init__(self, inner, absent=False):
        self.inner = inner
        self.absent = absent


class DateTime(Sort):
    def __init__(self, lo_year=1, hi_year=9999, midnight=False, date=False):
        self.lo_year, self.hi_year, self.midnight, self.date = lo_year, hi_year, midnight or date, date


class Rec(Sort):
    """An object of a repository class with the given field sorts (fields not listed are absent).
    ident: 'relpath::Class'.  If `init` is given, the object is built by calling the real constructor with
    symbolic arguments of those sorts instead."""
    def __init__(self, ident, fields=None, init=None):
        self.ident = ident
        self.fields = fields or {}
        self.init = init


class Const(Sort):
    def __init__(self, value):
        self.value = value


class ListOf(Sort):
    """A list of concrete length n with symbolic elements."""
    def __init__(self, inner, n):
        self.inner, self.n = inner, n


class TupleOf(Sort):
    def __init__(self, *inner):
        self.inner = inner


class Seq(Sort):
    """Symbolic-length list of scalars ('int' | 'bool' | 'str' | 'dt')."""
    def __init__(self, elem):
        self.elem = elem


class Arr(Sort):
    def __init__(self, elem):
        self.elem = elem


class RecList(Sort):
    """Symbolic-length list of records (struct of arrays): fields name -> kind."""
    def __init__(self, fields, cls=None):
        self.fields, self.cls = fields, cls


class Map(Sort):
    """Configuration table as an environment value: total function + membership predicate."""
    def __init__(self, keykind, valkind, val_lo=None, val_hi=None, total=False):
        self.keykind, self.valkind, self.val_lo, self.val_hi, self.total = keykind, valkind, val_lo, val_hi, total


class Expr(Sort):
    """A value defined by a contract expression over the parameters declared before it (ghost parameters that
    are not in the function's signature are allowed and are not passed to the function)."""
    def __init__(self, src):
        self.src = src


class Config(Sort):
    """A culture-configuration object: tables (Map sorts), plain values (sorts) and functions
    (name -> (list of arg kinds, result kind, lo, hi): an uninterpreted function); any other attribute is an
    opaque token (usable as a regex pattern)."""
    def __init__(self, tables=None, values=None, funcs=None):
        self.tables, self.values, self.funcs = tables or {}, values or {}, funcs or {}


class Returns(Sort):
    """In Config.funcs: a method of the configuration that returns a fresh value of `sort` on every call."""
    def __init__(self, sort):
        self.sort = sort


class Match(Sort):
    """A regex match object handed to the function: named groups are given by contract expressions over the
    parameters declared before it; geometry is R1 only (full=True: the match spans the whole string)."""
    def __init__(self, groups=None, string=None, full=False):
        self.groups, self.string, self.full = groups or {}, string, full


class Opaque(Sort):
    """An object the function only passes around (never inspected)."""
    pass


def build(I, sort, hint):
    from . import libdt, lib
    if isinstance(sort, Int):
        v = I.fresh(INT, hint)
        if sort.lo is not None:
            I.p.assume(v.t >= sort.lo)
        if sort.hi is not None:
            I.p.assume(v.t <= sort.hi)
        return v
    if isinstance(sort, Bool):
        return I.fresh(BOOL, hint)
    if isinstance(sort, Real):
        v = I.fresh(REAL, hint)
        if sort.lo is not None:
            I.p.assume(v.t >= sort.lo)
        if sort.hi is not None:
            I.p.assume(v.t <= sort.hi)
        return v
    if isinstance(sort, Str):
        v = I.fresh(STR, hint)
        if sort.maxlen is not None:
            I.p.assume(z3.Length(v.t) <= sort.maxlen)
        return v
    if isinstance(sort, Word):
        v = I.fresh(STR, hint)
        I.p.assume(z3.InRe(v.t, z3.Star(z3.Range('a', 'z'))))
        I.p.assume(z3.Length(v.t) >= sort.minlen)
        if sort.maxlen is not None:
            I.p.assume(z3.Length(v.t) <= sort.maxlen)
        v.parts = [OpaqueStr(v.t, alpha=True)]
        return v
    if isinstance(sort, Opt):
        return SOpt(z3.Bool(I.p.fresh_name(hint + '_isnone')), build(I, sort.inner, hint), sort.absent)
    if isinstance(sort, DateTime):
        d = libdt.fresh_datetime(I, hint, sort.lo_year, sort.hi_year)
        if sort.midnight:
            I.p.assume(I.term(d.sec) == 0)
        if getattr(sort, 'date', False):
            d.is_date = True          # a datetime.date, not a datetime.datetime at midnight
        return d
    if isinstance(sort, Const):
        return sort.value
    if isinstance(sort, Expr):
        return I.eval_src(sort.src, I._top_frame)
    if isinstance(sort, Rec):
        cls = I.repo.find(sort.ident)
        if sort.init is not None:
            kwargs = {k: build(I, s, f'{hint}_{k}') for k, s in sort.init.items()}
            return I.instantiate(cls, [], kwargs)
        o = Obj(cls, {}, label=hint)
        for k, s in sort.fields.items():
            o.fields[k] = build(I, s, f'{hint}_{k}')
        return o
    if isinstance(sort, ListOf):
        return [build(I, sort.inner, f'{hint}{i}') for i in range(sort.n)]
    if isinstance(sort, TupleOf):
        return tuple(build(I, s, f'{hint}{i}') for i, s in enumerate(sort.inner))
    if isinstance(sort, Seq):
        return SSeq(z3.Const(I.p.fresh_name(hint), lib.seq_sort(sort.elem)), sort.elem)
    if isinstance(sort, Arr):
        n = I.fresh(INT, hint + '_n')
        I.p.assume(n.t >= 0)
        es = z3.IntSort() if sort.elem == 'dt' else sort_of(sort.elem)
        a2 = z3.Const(I.p.fresh_name(hint + '_s'), z3.ArraySort(z3.IntSort(), z3.IntSort())) if sort.elem == 'dt' else None
        return SArr(z3.Const(I.p.fresh_name(hint), z3.ArraySort(z3.IntSort(), es)), n, sort.elem, a2)
    if isinstance(sort, RecList):
        n = I.fresh(INT, hint + '_n')
        I.p.assume(n.t >= 0)
        fields = {}
        for k, kind in sort.fields.items():
            if kind == 'any':
                fields[k] = ('any', None)
                continue
            es = z3.IntSort() if kind == 'dt' else sort_of(kind)
            fields[k] = (kind, z3.Const(I.p.fresh_name(f'{hint}_{k}'), z3.ArraySort(z3.IntSort(), es)))
        return SRecList(n, fields, I.repo.find(sort.cls) if isinstance(sort.cls, str) else sort.cls)
    if isinstance(sort, Map):
        ks, vs = sort_of(sort.keykind), sort_of(sort.valkind)
        has = z3.Function(I.p.fresh_name(hint + '_has'), ks, z3.BoolSort())
        get = z3.Function(I.p.fresh_name(hint + '_get'), ks, vs)
        m = lib.SMap(hint, sort.keykind, sort.valkind, has, get)
        m.has_decl, m.get_decl = has, get
        if sort.total:
            m.has = lambda t: z3.BoolVal(True)
            m.has_decl = None
        m.val_range = (sort.val_lo, sort.val_hi)
        if sort.val_lo is not None or sort.val_hi is not None:
            k = z3.Const(I.p.fresh_name('k'), ks)
            body = []
            if sort.val_lo is not None:
                body.append(get(k) >= sort.val_lo)
            if sort.val_hi is not None:
                body.append(get(k) <= sort.val_hi)
            I.p.assume(z3.ForAll([k], z3.And(*body)))
        return m
    if isinstance(sort, Opaque):
        o = Obj(None, {}, label=hint)
        return o
    if isinstance(sort, Config):
        from . import envmodel as E
        tables = {k: build(I, v, f'{hint}_{k}') for k, v in sort.tables.items()}
        values = {k: build(I, v, f'{hint}_{k}') for k, v in sort.values.items()}
        funcs = {}
        for k, spec in sort.funcs.items():
            if isinstance(spec, Returns):
                cnt = [0]

                calls = []

                def fn2(I2, a, kw, _s=spec.sort, _k=k, _c=cnt, _calls=calls):
                    _c[0] += 1
                    v = build(I2, _s, f'{hint}_{_k}{_c[0]}')
                    from .contract import snapshot
                    _calls.append(snapshot(v))
                    return v
                funcs[k] = E.EnvFunc(k, fn2)
                funcs[k].calls = calls
                continue
            argk, retk, lo, hi = spec
            uf = z3.Function(I.p.fresh_name(f'{hint}_{k}'), *[sort_of(a) for a in argk], sort_of(retk))

            def fn(I2, a, kw, _uf=uf, _argk=argk, _retk=retk, _lo=lo, _hi=hi):
                ts = [I2.term(I2.resolve(x), kk) for x, kk in zip(a, _argk)]
                r = _uf(*ts)
                if _lo is not None:
                    I2.p.assume(r >= _lo)
                if _hi is not None:
                    I2.p.assume(r <= _hi)
                return Sym(_retk, r)
            funcs[k] = E.EnvFunc(k, fn)
            funcs[k].uf = uf
        return E.EnvConfig(hint, tables, values, funcs)
    if isinstance(sort, Match):
        from . import envmodel as E
        s = I.eval_src(sort.string, I._top_frame) if sort.string else I.fresh(STR, hint + '_string')
        groups = {k: I.eval_src(v, I._top_frame) for k, v in sort.groups.items()}
        mv = E.fresh_match(I, s, hint, sort.full, groups)
        mv.declared_only = True
        return mv
    raise Unsupported(f'sort {sort!r}')


def conforms(I, sort, v):
    """z3 Bool: value v lies in the sort (used as an implicit precondition when a contract is applied at a call site).
    Raises Unsupported when the shape cannot be related."""
    from . import lib
    if isinstance(sort, Const):
        e = lib.eq_term(I, v, sort.value) if not (sort.value is None) else None
        if sort.value is None:
            if isinstance(v, SOpt):
                return v.isnone
            return z3.BoolVal(v is None)
        return e if not isinstance(e, bool) else z3.BoolVal(e)
    if isinstance(sort, Opt):
        if isinstance(v, SOpt):
            return z3.Or(v.isnone, conforms(I, sort.inner, v.val))
        if v is None or v is ABSENT:
            return z3.BoolVal(True)
        return conforms(I, sort.inner, v)
    if isinstance(v, SOpt):
        return z3.And(z3.Not(v.isnone), conforms(I, sort, v.val))
    if isinstance(sort, (Int, Real)):
        k = I.kind_of(v)
        if k not in (INT, BOOL) and not (isinstance(sort, Real) and k == REAL):
            return z3.BoolVal(False)
        if isinstance(v, bool) or (isinstance(v, Sym) and v.kind == BOOL):
            raise Unsupported('bool passed where the contract declares a number')
        t = I.term(v)
        cs = []
        if sort.lo is not None:
            cs.append(t >= sort.lo)
        if sort.hi is not None:
            cs.append(t <= sort.hi)
        return z3.And(*cs) if cs else z3.BoolVal(True)
    if isinstance(sort, Bool):
        return z3.BoolVal(I.kind_of(v) == BOOL)
    if isinstance(sort, Str):
        return z3.BoolVal(I.kind_of(v) == STR)
    if isinstance(sort, DateTime):
        if not isinstance(v, SDateTime):
            return z3.BoolVal(False)
        from . import libdt
        y = libdt.ymd(I, v)[0]
        cs = [I.term(y) >= sort.lo_year, I.term(y) <= sort.hi_year]
        if sort.midnight:
            cs.append(I.term(v.sec) == 0)
        if bool(getattr(sort, 'date', False)) != bool(v.is_date):
            return z3.BoolVal(False)
        return z3.And(*cs)
    if isinstance(sort, Rec):
        if not isinstance(v, Obj) or v.cls is None:
            return z3.BoolVal(False)
        want = I.repo.find(sort.ident)
        if want not in I.repo.mro(v.cls):
            return z3.BoolVal(False)
        if sort.init is not None:
            raise Unsupported('conformance to a constructor-built sort')
        cs = []
        for k, s2 in sort.fields.items():
            if k not in v.fields:
                if isinstance(s2, Opt) and s2.absent:
                    continue
                return z3.BoolVal(False)
            cs.append(conforms(I, s2, v.fields[k]))
        for k in v.fields:
            if k not in sort.fields:
                fv = v.fields[k]
                if isinstance(fv, SOpt) and fv.absent:
                    cs.append(fv.isnone)
                else:
                    return z3.BoolVal(False)
        return z3.And(*cs) if cs else z3.BoolVal(True)
    if isinstance(sort, Opaque):
        return z3.BoolVal(True)
    if isinstance(sort, Arr):
        return z3.BoolVal(isinstance(v, SArr) and v.elem == sort.elem)
    if isinstance(sort, Seq):
        return z3.BoolVal(isinstance(v, SSeq) and v.elem == sort.elem)
    if isinstance(sort, RecList):
        return z3.BoolVal(isinstance(v, SRecList) and set(v.fields) == set(sort.fields))
    raise Unsupported(f'conformance to sort {type(sort).__name__}')
