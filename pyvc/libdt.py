"""datetime / timedelta / calendar model (DESIGN §4.2): a datetime is (proleptic Gregorian ordinal, second of day).
Microseconds and time zones are not modelled.  The closed forms below are validated against CPython by
tools/validate_lib.py."""
import ast
import datetime as _dt
import z3

from .values import *
from .path import Unsupported, PathEnd

MAXORD = 3652059     # date(9999,12,31).toordinal()


def _L():
    from . import lib
    return lib


def PyExc(*a):
    from .symex import PyExc as P
    return P(*a)


# ------------------------------------------------------------------------------- closed forms (z3 terms)
def t_is_leap(y):
    return z3.And(y % 4 == 0, z3.Or(y % 100 != 0, y % 400 == 0))


def t_days_in_month(y, m):
    return z3.If(m == 2, z3.If(t_is_leap(y), 29, 28),
                 z3.If(z3.Or(m == 4, m == 6, m == 9, m == 11), 30, 31))


def t_valid_date(y, m, d):
    return z3.And(y >= 1, y <= 9999, m >= 1, m <= 12, d >= 1, d <= t_days_in_month(y, m))


def t_days_before_year(y):
    yy = y - 1
    return yy * 365 + yy / 4 - yy / 100 + yy / 400


def t_days_before_month(y, m):
    base = (367 * m - 362) / 12
    return base + z3.If(m <= 2, 0, z3.If(t_is_leap(y), -1, -2))


def t_ordinal(y, m, d):
    return t_days_before_year(y) + t_days_before_month(y, m) + d


def T(I, v):
    return I.term(v)


# Uninterpreted calendar symbols with per-application definitional axioms (no quantifiers): equal ordinals get
# equal projections by congruence, which the solvers cannot derive from the closed forms alone.
ORD = z3.Function('ORD', z3.IntSort(), z3.IntSort(), z3.IntSort(), z3.IntSort())
YOF = z3.Function('YOF', z3.IntSort(), z3.IntSort())
MOF = z3.Function('MOF', z3.IntSort(), z3.IntSort())
DOF = z3.Function('DOF', z3.IntSort(), z3.IntSort())


def ord_term(I, ty, tm, td):
    """ordinal of (y, m, d) as ORD(y,m,d) with its defining instance axioms"""
    t = ORD(ty, tm, td)
    key = ('ORD', t.get_id())
    if key not in I.p.ghost:
        I.p.ghost[key] = t     # pins the term (z3 reuses ids)
        I.p.assume(z3.And(t == t_ordinal(ty, tm, td),
                          z3.Implies(t_valid_date(ty, tm, td),
                                     z3.And(YOF(t) == ty, MOF(t) == tm, DOF(t) == td, t >= 1, t <= MAXORD))))
    return t


def proj_terms(I, to):
    """(Y, M, D) of an ordinal term (valid for 1 <= o <= MAXORD)"""
    key = ('PROJ', to.get_id())
    if key not in I.p.ghost:
        I.p.ghost[key] = to     # pins the term (z3 reuses ids)
        y, m, d = YOF(to), MOF(to), DOF(to)
        o2 = ord_term(I, y, m, d)
        I.p.assume(z3.Implies(z3.And(to >= 1, to <= MAXORD), z3.And(t_valid_date(y, m, d), o2 == to)))
    return YOF(to), MOF(to), DOF(to)


def is_conc(*vs):
    return all(isinstance(v, int) and not isinstance(v, bool) for v in vs)


# ------------------------------------------------------------------------------- constructors
def make_datetime(I, y, mo, d, h=0, mi=0, s=0, us=0, is_date=False):
    vals = [I.resolve(x) for x in (y, mo, d, h, mi, s, us)]
    for v in vals:
        if isinstance(v, Unknown):
            return I.unknown('datetime of unknown')
        if I.kind_of(v) not in (INT, BOOL):
            raise PyExc('TypeError', 'datetime() argument must be int')
    y, mo, d, h, mi, s, us = vals
    if is_conc(y, mo, d, h, mi, s, us):
        try:
            x = _dt.datetime(y, mo, d, h, mi, s, us)
        except ValueError:
            raise PyExc('ValueError', 'datetime out of range')
        return SDateTime(x.toordinal(), h * 3600 + mi * 60 + s, (y, mo, d), is_date)
    ty, tm, td, th, tmi, ts, tus = [T(I, v) for v in vals]
    ok = z3.And(t_valid_date(ty, tm, td), th >= 0, th <= 23, tmi >= 0, tmi <= 59, ts >= 0, ts <= 59,
                tus >= 0, tus <= 999999)
    if not I.branch(ok):
        raise PyExc('ValueError', 'datetime out of range')
    ordv = Sym(INT, ord_term(I, ty, tm, td))
    sec = I.binop(ast.Add, I.binop(ast.Add, I.binop(ast.Mult, h, 3600), I.binop(ast.Mult, mi, 60)), s)
    return SDateTime(ordv, sec, (y, mo, d), is_date)


def fresh_datetime(I, hint, lo_year=1, hi_year=9999):
    """A fresh datetime as (ordinal, second of day); year/month/day are introduced lazily (proj_terms)."""
    o = I.fresh(INT, hint + '_ord')
    sec = I.fresh(INT, hint + '_sec')
    lo = _dt.date(lo_year, 1, 1).toordinal()
    hi = _dt.date(hi_year, 12, 31).toordinal()
    I.p.assume(z3.And(o.t >= lo, o.t <= hi, sec.t >= 0, sec.t < 86400))
    return SDateTime(o, sec)


def ymd(I, dt):
    if dt._ymd is not None:
        return dt._ymd
    if is_conc(dt.ord):
        x = _dt.date.fromordinal(dt.ord)
        dt._ymd = (x.year, x.month, x.day)
        return dt._ymd
    ty, tm, td = proj_terms(I, T(I, dt.ord))
    dt._ymd = (Sym(INT, ty), Sym(INT, tm), Sym(INT, td))
    return dt._ymd


def dt_total(I, dt):
    dt = I.resolve(dt)
    if not isinstance(dt, SDateTime):
        raise Unsupported('datetime expected')
    if is_conc(dt.ord, dt.sec):
        return z3.IntVal(dt.ord * 86400 + dt.sec)
    return T(I, dt.ord) * 86400 + T(I, dt.sec)


def dt_from_total(I, t):
    """datetime from a total-seconds term (no fresh variables: usable under quantifiers)"""
    return SDateTime(Sym(INT, t / 86400), Sym(INT, t % 86400))


def from_total_checked(I, total, is_date=False):
    """datetime from total seconds value with OverflowError outside year 1..9999."""
    if isinstance(total, int):
        o, s = divmod(total, 86400)
        if o < 1 or o > MAXORD:
            raise PyExc('OverflowError', 'date value out of range')
        return SDateTime(o, s, None, is_date)
    t = T(I, total)
    o = Sym(INT, t / 86400)
    s = Sym(INT, t % 86400)
    if not I.branch(z3.And(o.t >= 1, o.t <= MAXORD)):
        raise PyExc('OverflowError', 'date value out of range')
    return SDateTime(simp_int(o), simp_int(s), None, is_date)


def simp_int(v):
    if isinstance(v, Sym):
        t = z3.simplify(v.t)
        if z3.is_int_value(t):
            return t.as_long()
        return Sym(INT, t)
    return v


def td_total(I, td):
    if isinstance(td.secs, int) and td.secs == 0:
        return I.binop(ast.Mult, td.days, 86400)
    return I.binop(ast.Add, I.binop(ast.Mult, td.days, 86400), td.secs)


def add_dt_td(I, a, b, sgn):
    days = b.days if sgn > 0 else I.binop(ast.Sub, 0, b.days)
    secs = b.secs if sgn > 0 else I.binop(ast.Sub, 0, b.secs)
    if isinstance(secs, int) and secs == 0:
        o = simp_int(I.binop(ast.Add, a.ord, days))
        s = a.sec
    else:
        tot = I.binop(ast.Add, a.sec, secs)
        o = simp_int(I.binop(ast.Add, I.binop(ast.Add, a.ord, days), I.binop(ast.FloorDiv, tot, 86400)))
        s = simp_int(I.binop(ast.Mod, tot, 86400))
    if isinstance(o, int):
        if o < 1 or o > MAXORD:
            raise PyExc('OverflowError', 'date value out of range')
    elif not I.branch(z3.And(o.t >= 1, o.t <= MAXORD)):
        raise PyExc('OverflowError', 'date value out of range')
    return SDateTime(o, s, None, a.is_date)


def make_timedelta(I, args, kwargs):
    names = ['days', 'seconds', 'microseconds', 'milliseconds', 'minutes', 'hours', 'weeks']
    vals = dict(zip(names, args))
    vals.update(kwargs)
    mult = {'days': (1, 0), 'seconds': (0, 1), 'minutes': (0, 60), 'hours': (0, 3600), 'weeks': (7, 0)}
    days = 0
    secs = 0
    for k, v in vals.items():
        v = I.resolve(v)
        if isinstance(v, Unknown):
            return I.unknown('timedelta of unknown')
        if k in ('microseconds', 'milliseconds'):
            if v == 0:
                continue
            raise Unsupported('timedelta sub-second')
        if I.kind_of(v) == REAL:
            if isinstance(v, float) and v == int(v):
                v = int(v)
            else:
                raise Unsupported('timedelta with fractional value')
        md, ms = mult[k]
        if md:
            days = I.binop(ast.Add, days, I.binop(ast.Mult, v, md))
        else:
            secs = I.binop(ast.Add, secs, I.binop(ast.Mult, v, ms))
    return STimedelta(days, secs)


# ------------------------------------------------------------------------------- operators
def binop(I, op, a, b):
    L = _L()
    if isinstance(a, SDateTime) and isinstance(b, STimedelta):
        if op is ast.Add:
            return add_dt_td(I, a, b, 1)
        if op is ast.Sub:
            return add_dt_td(I, a, b, -1)
    if isinstance(a, STimedelta) and isinstance(b, SDateTime) and op is ast.Add:
        return binop(I, op, b, a)
    if isinstance(a, SDateTime) and isinstance(b, SDateTime) and op is ast.Sub:
        if a.is_date != b.is_date:
            raise PyExc('TypeError', 'unsupported operand type(s) for -: date and datetime')
        return STimedelta(simp_int(I.binop(ast.Sub, a.ord, b.ord)), simp_int(I.binop(ast.Sub, a.sec, b.sec)))
    if isinstance(a, STimedelta) and isinstance(b, STimedelta):
        if op is ast.Add:
            return STimedelta(I.binop(ast.Add, a.days, b.days), I.binop(ast.Add, a.secs, b.secs))
        if op is ast.Sub:
            return STimedelta(I.binop(ast.Sub, a.days, b.days), I.binop(ast.Sub, a.secs, b.secs))
        if op is ast.FloorDiv:
            return I.binop(ast.FloorDiv, td_total(I, a), td_total(I, b))
    if isinstance(a, STimedelta) and I.kind_of(b) == INT and op is ast.Mult:
        return STimedelta(I.binop(ast.Mult, a.days, b), I.binop(ast.Mult, a.secs, b))
    if isinstance(b, STimedelta) and I.kind_of(a) == INT and op is ast.Mult:
        return STimedelta(I.binop(ast.Mult, b.days, a), I.binop(ast.Mult, b.secs, a))
    if isinstance(a, DateDelta) or isinstance(b, DateDelta):
        return datedelta_binop(I, op, a, b)
    if isinstance(a, (SDateTime, STimedelta)) or isinstance(b, (SDateTime, STimedelta)):
        raise PyExc('TypeError', f'unsupported operand for datetime: {op.__name__}')
    return L.NOTFOUND


def eq(I, a, b):
    L = _L()
    if isinstance(a, SDateTime) and isinstance(b, SDateTime):
        if a.is_date != b.is_date:
            return False          # a date never equals a datetime
        if is_conc(a.ord, a.sec, b.ord, b.sec):
            return (a.ord, a.sec) == (b.ord, b.sec)
        return z3.And(T(I, a.ord) == T(I, b.ord), T(I, a.sec) == T(I, b.sec))
    if isinstance(a, STimedelta) and isinstance(b, STimedelta):
        e = I.compare(ast.Eq, td_total(I, a), td_total(I, b))
        return e if isinstance(e, bool) else e.t
    if isinstance(a, (SDateTime, STimedelta, DateDelta)) or isinstance(b, (SDateTime, STimedelta, DateDelta)):
        return False
    return L.NOTFOUND


def order(I, op, a, b):
    L = _L()
    if isinstance(a, SDateTime) and isinstance(b, SDateTime):
        if a.is_date != b.is_date:
            raise PyExc('TypeError', "can't compare datetime.datetime to datetime.date")
        ta, tb = dt_total(I, a), dt_total(I, b)
        return {ast.Lt: ta < tb, ast.LtE: ta <= tb, ast.Gt: ta > tb, ast.GtE: ta >= tb}[op]
    if isinstance(a, STimedelta) and isinstance(b, STimedelta):
        r = I.compare(op, td_total(I, a), td_total(I, b))
        return r if isinstance(r, bool) else r.t
    if isinstance(a, (SDateTime, STimedelta)) or isinstance(b, (SDateTime, STimedelta)):
        raise PyExc('TypeError', 'ordering datetime with non-datetime')
    return L.NOTFOUND


def subscript(I, o, k):
    return _L().NOTFOUND


def to_str(I, v):
    L = _L()
    if isinstance(v, SDateTime):
        raise Unsupported('str(datetime)')
    return L.NOTFOUND


# ------------------------------------------------------------------------------- attributes / methods
def get_attribute(I, o, name):
    L = _L()
    if isinstance(o, SDateTime):
        if name in ('year', 'month', 'day'):
            y, m, d = ymd(I, o)
            return {'year': y, 'month': m, 'day': d}[name]
        if name == 'hour':
            return simp_int(I.binop(ast.FloorDiv, o.sec, 3600))
        if name == 'minute':
            return simp_int(I.binop(ast.FloorDiv, I.binop(ast.Mod, o.sec, 3600), 60))
        if name == 'second':
            return simp_int(I.binop(ast.Mod, o.sec, 60))
        if name == 'microsecond':
            return 0
        if name == 'tzinfo':
            return None
        if name in ('weekday', 'isoweekday', 'toordinal', 'date', 'time', 'isocalendar', 'replace', 'timetuple',
                    'strftime', 'isoformat', 'timestamp', 'astimezone', 'utcoffset'):
            return BoundBuiltin(o, name)
        raise PyExc('AttributeError', f'datetime.{name}')
    if isinstance(o, STimedelta):
        if name == 'days':
            if isinstance(o.secs, int) and 0 <= o.secs < 86400:
                return o.days
            return simp_int(I.binop(ast.Add, o.days, I.binop(ast.FloorDiv, o.secs, 86400)))
        if name == 'seconds':
            if isinstance(o.secs, int):
                return o.secs % 86400
            return simp_int(I.binop(ast.Mod, o.secs, 86400))
        if name == 'microseconds':
            return 0
        if name == 'total_seconds':
            return BoundBuiltin(o, name)
        raise PyExc('AttributeError', f'timedelta.{name}')
    if isinstance(o, IsoCal):
        return {'year': o.vals[0], 'week': o.vals[1], 'weekday': o.vals[2]}[name]
    if isinstance(o, DateDelta):
        return getattr(o, name)
    return L.NOTFOUND


class IsoCal:
    def __init__(self, vals):
        self.vals = vals


class DateDelta:
    """datedelta(years, months, days) — semantics assumed per DESIGN §4.6."""
    def __init__(self, years=0, months=0, days=0):
        self.years, self.months, self.days = years, months, days


def weekday_val(I, dt):
    if is_conc(dt.ord):
        return (dt.ord + 6) % 7
    return Sym(INT, (T(I, dt.ord) + 6) % 7)


def call_method(I, recv, name, args, kwargs):
    L = _L()
    if isinstance(recv, SDateTime):
        if name == 'weekday':
            return weekday_val(I, recv)
        if name == 'isoweekday':
            return I.binop(ast.Add, weekday_val(I, recv), 1)
        if name == 'toordinal':
            return recv.ord
        if name == 'date':
            return SDateTime(recv.ord, 0, recv._ymd, True)
        if name == 'time':
            raise Unsupported('datetime.time()')
        if name == 'isocalendar':
            wd = weekday_val(I, recv)
            thursday = SDateTime(simp_int(I.binop(ast.Add, I.binop(ast.Sub, recv.ord, wd), 3)), 0)
            # ISO year = calendar year of the week's Thursday (0 or 10000 at the extremes are not modelled)
            if not I.branch(z3.And(T(I, thursday.ord) >= 1, T(I, thursday.ord) <= MAXORD)):
                raise Unsupported('isocalendar at the edge of the calendar')
            iy = ymd(I, thursday)[0]
            jan1 = Sym(INT, ord_term(I, T(I, iy), z3.IntVal(1), z3.IntVal(1)))
            week = simp_int(I.binop(ast.Add, I.binop(ast.FloorDiv, I.binop(ast.Sub, thursday.ord, jan1), 7), 1))
            return IsoCalTuple((iy, week, I.binop(ast.Add, wd, 1)))
        if name == 'replace':
            y, m, d = ymd(I, recv)
            f = dict(year=y, month=m, day=d, hour=get_attribute(I, recv, 'hour'),
                     minute=get_attribute(I, recv, 'minute'), second=get_attribute(I, recv, 'second'), microsecond=0)
            for k, v in kwargs.items():
                if k not in f:
                    raise Unsupported('replace ' + k)
                f[k] = v
            return make_datetime(I, f['year'], f['month'], f['day'], f['hour'], f['minute'], f['second'], 0, recv.is_date)
        if name == 'timetuple':
            y, m, d = ymd(I, recv)
            jan1 = Sym(INT, ord_term(I, T(I, y), z3.IntVal(1), z3.IntVal(1)))
            return TimeTuple(simp_int(I.binop(ast.Add, I.binop(ast.Sub, recv.ord, jan1), 1)))
        if name == 'strftime':
            fmt = I.resolve(args[0])
            if not isinstance(fmt, str):
                raise Unsupported('strftime with symbolic format')
            # glibc semantics as CPython on Linux exposes them: %Y is NOT zero padded, %m %d %H %M %S are 2 digits
            y, m, d = ymd(I, recv)
            vals = {'Y': (y, None), 'm': (m, 2), 'd': (d, 2), 'H': (get_attribute(I, recv, 'hour'), 2),
                    'M': (get_attribute(I, recv, 'minute'), 2), 'S': (get_attribute(I, recv, 'second'), 2)}
            parts = []
            i = 0
            while i < len(fmt):
                c = fmt[i]
                if c == '%' and i + 1 < len(fmt):
                    k = fmt[i + 1]
                    if k == '%':
                        parts.append('%')
                    elif k in vals:
                        v, w = vals[k]
                        parts.append(L.to_str(I, v) if w is None else L.format_int_0w(I, v, w))
                    else:
                        raise Unsupported('strftime directive %' + k)
                    i += 2
                else:
                    parts.append(c)
                    i += 1
            return L.concat_strs(I, parts)
        if name in ('isoformat', 'timestamp', 'astimezone', 'utcoffset'):
            raise Unsupported('datetime.' + name)
    if isinstance(recv, STimedelta):
        if name == 'total_seconds':
            t = td_total(I, recv)
            return float(t) if isinstance(t, int) else Sym(REAL, z3.ToReal(t.t))
    return L.NOTFOUND


class IsoCalTuple(tuple):
    pass


class TimeTuple:
    def __init__(self, yday):
        self.tm_yday = yday


def class_attribute(I, cls, name):
    if name == 'now' or name == 'today' or name == 'utcnow':
        return Builtin('datetime.now', lambda I, a, k: _ambient_now(I))
    if name == 'min':
        return SDateTime(1, 0, (1, 1, 1))
    if name == 'max':
        return SDateTime(MAXORD, 86399, (9999, 12, 31))
    if name == 'fromordinal':
        return Builtin('fromordinal', lambda I, a, k: from_total_checked(I, I.binop(ast.Mult, a[0], 86400)))
    if name == 'combine':
        def comb(I, a, k):
            d, t = I.resolve(a[0]), I.resolve(a[1])
            if isinstance(d, SDateTime) and isinstance(t, SDateTime):
                return SDateTime(d.ord, t.sec, d._ymd)
            raise Unsupported('combine')
        return Builtin('combine', comb)
    raise Unsupported(f'{cls}.{name}')


def _ambient_now(I):
    I.p.notes.append('ambient read: datetime.now()')
    return fresh_datetime(I, 'now', 1950, 2100)


def _calendar_attr(name):
    if name == 'monthrange':
        def f(I, a, k):
            y, m = I.resolve(a[0]), I.resolve(a[1])
            if is_conc(y, m):
                import calendar
                try:
                    return calendar.monthrange(y, m)
                except Exception:
                    raise PyExc('ValueError', 'bad month')
            ty, tm = T(I, y), T(I, m)
            if not I.branch(z3.And(tm >= 1, tm <= 12)):
                raise PyExc('IllegalMonthError', 'bad month')
            if not I.branch(z3.And(ty >= 1, ty <= 9999)):
                raise PyExc('ValueError', 'year out of range')
            first = SDateTime(Sym(INT, ord_term(I, ty, tm, z3.IntVal(1))), 0)
            return (weekday_val(I, first), Sym(INT, t_days_in_month(ty, tm)))
        return Builtin('monthrange', f)
    if name == 'isleap':
        return Builtin('isleap', lambda I, a, k: _L().wrap_bool(t_is_leap(T(I, I.resolve(a[0])))))
    raise Unsupported('calendar.' + name)


def external(mod, attr, I):
    L = _L()
    if mod == 'datetime':
        if attr in ('datetime', 'date'):
            isd = attr == 'date'
            return Builtin(attr, lambda I, a, k, _d=isd: make_datetime(I, *_dt_args(a, k), is_date=_d))
        if attr == 'timedelta':
            return Builtin('timedelta', lambda I, a, k: make_timedelta(I, a, k))
        if attr == 'time':
            return L.LazyUnknown('datetime.time')
    if mod == 'calendar':
        return _calendar_attr(attr)
    if mod == 'datedelta' and attr == 'datedelta':
        return Builtin('datedelta', lambda I, a, k: DateDelta(**{kk: I.resolve(v) for kk, v in k.items()}) if not a else _unsup())
    return L.NOTFOUND


def _unsup():
    raise Unsupported('datedelta positional args')


def _dt_args(a, k):
    names = ['year', 'month', 'day', 'hour', 'minute', 'second', 'microsecond']
    vals = {'hour': 0, 'minute': 0, 'second': 0, 'microsecond': 0}
    for n, v in zip(names, a):
        vals[n] = v
    for kk, v in k.items():
        if kk == 'tzinfo':
            continue
        vals[kk] = v
    if any(n not in vals for n in ('year', 'month', 'day')):
        raise PyExc('TypeError', 'datetime() missing arguments')
    return [vals[n] for n in names]


def datedelta_binop(I, op, a, b):
    """date +/- datedelta.  days: exact.  months/years: the (year, month) shifts; when the day does not exist
    in the target month the result is NOT assumed (DESIGN §4.6) — the path is reported unsupported."""
    if isinstance(a, DateDelta) and isinstance(b, DateDelta):
        sgn = 1 if op is ast.Add else -1
        return DateDelta(I.binop(ast.Add, a.years, I.binop(ast.Mult, sgn, b.years)),
                         I.binop(ast.Add, a.months, I.binop(ast.Mult, sgn, b.months)),
                         I.binop(ast.Add, a.days, I.binop(ast.Mult, sgn, b.days)))
    if isinstance(b, DateDelta) and isinstance(a, int) and op is ast.Mult:
        return DateDelta(a * b.years, a * b.months, a * b.days) if is_conc(b.years, b.months, b.days) else _unsupdd()
    if isinstance(a, DateDelta) and op is ast.Add:
        a, b = b, a
    if not isinstance(a, SDateTime):
        raise PyExc('TypeError', 'datedelta operand')
    sgn = 1 if op is ast.Add else -1
    if op not in (ast.Add, ast.Sub):
        raise PyExc('TypeError', 'datedelta op')
    res = a
    months = I.binop(ast.Add, I.binop(ast.Mult, b.years, 12), b.months)
    if not (isinstance(months, int) and months == 0):
        y, m, d = ymd(I, a)
        tot = I.binop(ast.Add, I.binop(ast.Add, I.binop(ast.Mult, y, 12), I.binop(ast.Sub, m, 1)), I.binop(ast.Mult, sgn, months))
        ny = simp_int(I.binop(ast.FloorDiv, tot, 12))
        nm = simp_int(I.binop(ast.Add, I.binop(ast.Mod, tot, 12), 1))
        if not I.branch(z3.And(T(I, ny) >= 1, T(I, ny) <= 9999)):
            raise PyExc('OverflowError', 'date value out of range')
        if not I.branch(T(I, d) <= t_days_in_month(T(I, ny), T(I, nm))):
            I.p.notes.append('datedelta month arithmetic on a day that does not exist in the target month: not assumed (DESIGN 4.6)')
            raise Unsupported('datedelta: day does not exist in target month (semantics of the missing library not assumed)')
        res = make_datetime(I, ny, nm, d, get_attribute(I, a, 'hour'), get_attribute(I, a, 'minute'), get_attribute(I, a, 'second'), 0, a.is_date)
    if not (isinstance(b.days, int) and b.days == 0):
        res = binop(I, ast.Add, res, STimedelta(I.binop(ast.Mult, sgn, b.days), 0))
    return res


def _unsupdd():
    raise Unsupported('symbolic datedelta scaling')
