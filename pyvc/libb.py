"""Second half of lib: builtins, methods of modelled values, attribute access, symbolic constructors."""
import ast
import decimal as _decimal
import sys as _sys
import z3

from .values import *
from .path import Unsupported, PathEnd


def _L():
    from . import lib
    return lib


def PyExc(*a):
    from .symex import PyExc as P
    return P(*a)


# ---------------------------------------------------------------------------------------- builtins
def _b_len(I, a, k):
    return _L().length(I, a[0])


def _b_str(I, a, k):
    if not a:
        return ''
    return _L().to_str(I, a[0])


def _b_int(I, a, k):
    L = _L()
    if not a:
        return 0
    v = I.resolve(a[0])
    if len(a) > 1:
        if is_sym(v):
            raise Unsupported('int with base on symbolic')
        try:
            return int(v, a[1])
        except ValueError:
            raise PyExc('ValueError')
    if isinstance(v, bool):
        return int(v)
    if isinstance(v, int):
        return v
    if isinstance(v, float):
        return int(v)
    if isinstance(v, str):
        try:
            return int(v)
        except ValueError:
            raise PyExc('ValueError', f'int({v!r})')
    if isinstance(v, L.PyDecimal):
        return int(v.value)
    if isinstance(v, Sym):
        if v.kind == INT:
            return v
        if v.kind == BOOL:
            return Sym(INT, z3.If(v.t, 1, 0))
        if v.kind == REAL:
            # int() truncates toward zero
            t = v.t
            ts = z3.simplify(t)
            if z3.is_app(ts) and ts.decl().kind() == z3.Z3_OP_TO_REAL:
                return Sym(INT, ts.arg(0))
            return Sym(INT, z3.If(t >= 0, z3.ToInt(t), -z3.ToInt(-t)))
        if v.kind == STR:
            from . import strparts
            r = strparts.int_value(I, v)
            if r == 'ValueError':
                raise PyExc('ValueError', 'int of non-digit string')
            if r is not strparts.NOTFOUND:
                return r
            # int(s): defined for (optionally signed, space-padded) digit strings; we model plain digit strings
            if I.branch(L._ISDIG(v.t)):
                n = L._SINT(v.t)
                I.p.assume(n >= 0)
                return Sym(INT, n)
            # not a plain digit string: python may still accept (' 12', '+3', '-4', '１２'); not modelled
            I.p.taint('int() of a non-digit string')
            raise PyExc('ValueError', 'int of non-digit string')
    if isinstance(v, Unknown):
        return I.unknown('int of unknown')
    if v is None:
        raise PyExc('TypeError', 'int(None)')
    raise Unsupported(f'int() of {type(v).__name__}')


def _b_float(I, a, k):
    v = I.resolve(a[0])
    if isinstance(v, (int, float)):
        return float(v)
    if isinstance(v, str):
        try:
            return float(v)
        except ValueError:
            raise PyExc('ValueError')
    if isinstance(v, Sym) and v.kind in (INT, REAL):
        return Sym(REAL, I.term(v, REAL))
    if isinstance(v, Sym) and v.kind == STR:
        from . import strparts
        r = strparts.int_value(I, v)
        if r == 'ValueError':
            raise PyExc('ValueError', 'float of non-numeric string')
        if r is not strparts.NOTFOUND:
            return Sym(REAL, I.term(r, REAL))
        raise Unsupported('float() of an unstructured symbolic string')
    if isinstance(v, _L().PyDecimal):
        return float(v.value)
    raise Unsupported('float() of ' + type(v).__name__)


def _b_bool(I, a, k):
    if not a:
        return False
    v = I.resolve(a[0])
    if isinstance(v, Sym):
        return _L().wrap_bool(I.truth_term(v))
    return I.truth(v)


def _b_isinstance(I, a, k):
    L = _L()
    v = I.resolve(a[0])
    spec = a[1]
    specs = list(spec) if isinstance(spec, (tuple, list)) else [spec]
    for s in specs:
        if isinstance(s, ClassVal):
            if isinstance(v, Obj) and v.cls is not None and s.info in I.repo.mro(v.cls):
                return True
            if isinstance(v, Unknown):
                return I.truth(v)
        elif isinstance(s, Builtin):
            n = s.name
            if n == 'int' and (isinstance(v, int) or (isinstance(v, Sym) and v.kind in (INT, BOOL))):
                return True
            if n == 'bool' and (isinstance(v, bool) or (isinstance(v, Sym) and v.kind == BOOL)):
                return True
            if n == 'str' and (isinstance(v, str) or (isinstance(v, Sym) and v.kind == STR)):
                return True
            if n == 'float' and (isinstance(v, float) or (isinstance(v, Sym) and v.kind == REAL)):
                return True
            if n == 'list' and isinstance(v, (list, SSeq, SArr, SRecList)):
                return True
            if n == 'dict' and isinstance(v, dict):
                return True
            if n == 'tuple' and isinstance(v, tuple):
                return True
            if n == 'datetime' and isinstance(v, SDateTime):
                return True
            if n == 'Decimal' and isinstance(v, L.PyDecimal):
                return True
        elif isinstance(s, Unknown):
            return I.truth(s)
    return False


def _b_hasattr(I, a, k):
    o = I.resolve(a[0])
    name = a[1]
    if not isinstance(name, str):
        raise Unsupported('hasattr with symbolic name')
    if isinstance(o, Obj):
        if name in o.fields:
            v = o.fields[name]
            if isinstance(v, SOpt) and v.absent:
                if I.branch(v.isnone):
                    return False
            return True
        if o.cls is not None:
            if I.repo.find_method(o.cls, name, kinds=('methods', 'getters')) is not None:
                return True
            if I.repo.find_class_assign(o.cls, name) is not None:
                return True
        return False
    raise Unsupported('hasattr on ' + type(o).__name__)


def _b_getattr(I, a, k):
    o = I.resolve(a[0])
    name = a[1]
    if not isinstance(name, str):
        raise Unsupported('getattr with symbolic name')
    if isinstance(o, Obj) and name in o.fields:
        v = o.fields[name]
        if isinstance(v, SOpt) and v.absent:
            v = I.resolve(v)
            if v is ABSENT:
                if len(a) > 2:
                    return a[2]
                raise PyExc('AttributeError', name)
        return v
    try:
        return I.getattr(o, name)
    except Exception as e:
        from .symex import PyExc as P
        if isinstance(e, P) and e.etype == 'AttributeError' and len(a) > 2:
            return a[2]
        raise


def _b_setattr(I, a, k):
    o = I.resolve(a[0])
    if not isinstance(a[1], str) or not isinstance(o, Obj):
        raise Unsupported('setattr')
    if o.frozen:
        raise Unsupported('setattr on escaped object')
    o.fields[a[1]] = a[2]
    return None


def _b_delattr(I, a, k):
    o = I.resolve(a[0])
    if not isinstance(a[1], str) or not isinstance(o, Obj):
        raise Unsupported('delattr')
    if a[1] in o.fields:
        v = o.fields[a[1]]
        if isinstance(v, SOpt) and v.absent and I.branch(v.isnone):
            raise PyExc('AttributeError', a[1])
        del o.fields[a[1]]
        return None
    raise PyExc('AttributeError', a[1])


def _b_range(I, a, k):
    L = _L()
    a = [I.resolve(x) for x in a]
    if len(a) == 1:
        lo, hi, st = 0, a[0], 1
    elif len(a) == 2:
        lo, hi, st = a[0], a[1], 1
    else:
        lo, hi, st = a
    if all(isinstance(x, int) for x in (lo, hi, st)):
        return range(lo, hi, st)
    return L.SymRange(lo, hi, st)


def _b_enumerate(I, a, k):
    L = _L()
    seq = I.resolve(a[0])
    start = a[1] if len(a) > 1 else k.get('start', 0)
    if isinstance(seq, (SSeq, SArr, SRecList)):
        return L.SymEnumerate(seq, start)
    if isinstance(seq, Sym) and seq.kind == STR:
        from . import strparts
        if seq.parts is None or strparts.concrete_len(seq) is strparts.NOTFOUND:
            return L.SymEnumerate(seq, start)         # characters of a symbolic string, by position
    items = I.iterate_concrete(seq)
    return [(start + i, x) for i, x in enumerate(items)]


def _b_zip(I, a, k):
    lists = [I.iterate_concrete(x) for x in a]
    return [tuple(t) for t in zip(*lists)]


def _b_list(I, a, k):
    if not a:
        return []
    v = I.resolve(a[0])
    if isinstance(v, (SSeq, SArr, SRecList)):
        return v
    if isinstance(v, Sym) and v.kind == STR:
        # list(str): the array of its one-character substrings (mutable copy)
        q = z3.Int('q_chr')
        arr = z3.Lambda([q], z3.SubString(v.t, q, 1))
        a2 = SArr(arr, Sym(INT, z3.Length(v.t)), STR)
        a2.src = v
        return a2
    return list(I.iterate_concrete(v))


def _b_tuple(I, a, k):
    if not a:
        return ()
    return tuple(I.iterate_concrete(a[0]))


def _b_dict(I, a, k):
    d = {}
    if a:
        v = I.resolve(a[0])
        if isinstance(v, dict):
            d.update(v)
        else:
            for kv in I.iterate_concrete(v):
                kk, vv = I.iterate_concrete(kv)
                d[_L().hashable(kk)] = vv
    d.update(k)
    return d


def _b_set(I, a, k):
    if not a:
        return set()
    items = I.iterate_concrete(a[0])
    if any(is_sym(x) for x in items):
        raise Unsupported('set of symbolic values')
    return set(_L().hashable(x) for x in items)


def _minmax(which):
    def f(I, a, k):
        L = _L()
        items = list(a) if len(a) > 1 else I.iterate_concrete(a[0])
        if 'key' in k:
            keyf = k['key']
            keys = [I.call(keyf, [x], {}) for x in items]
        else:
            keys = items
        if not items:
            if 'default' in k:
                return k['default']
            raise PyExc('ValueError', 'empty sequence')
        best, bestk = items[0], keys[0]
        for x, kx in zip(items[1:], keys[1:]):
            c = I.compare(ast.Lt if which == 'min' else ast.Gt, kx, bestk)
            if not is_sym(c):
                if c:
                    best, bestk = x, kx
                continue
            if I.truth(c):
                best, bestk = x, kx
        return best
    return f


def _b_abs(I, a, k):
    v = I.resolve(a[0])
    if isinstance(v, Sym):
        if I.truth(I.compare(ast.Lt, v, 0)):
            return I.binop(ast.Sub, 0, v)
        return v
    if isinstance(v, STimedelta):
        from . import libdt
        if I.branch(I.term(libdt.td_total(I, v)) < 0):
            return STimedelta(I.binop(ast.Sub, 0, v.days), I.binop(ast.Sub, 0, v.secs))
        return v
    return abs(v)


def _b_sum(I, a, k):
    acc = a[1] if len(a) > 1 else 0
    for x in I.iterate_concrete(a[0]):
        acc = I.binop(ast.Add, acc, x)
    return acc


def _b_any(I, a, k):
    for x in I.iterate_concrete(a[0]):
        if I.truth(x):
            return True
    return False


def _b_all(I, a, k):
    for x in I.iterate_concrete(a[0]):
        if not I.truth(x):
            return False
    return True


def _sorted_reclist(I, v, keyf):
    """sorted(list of records, key=f): a fresh list that is a permutation of v (ghost permutation array, injective,
    field-wise equal) and ordered by the key (library contract of sorted; stability is not needed by the callers)"""
    L = _L()
    if keyf is None:
        raise Unsupported('sorted of records without key')
    n = v.n
    new = SRecList(n, {k2: (kind, None if kind == 'any' else z3.Const(I.p.fresh_name(f'sorted_{k2}'), arr.sort()))
                       for k2, (kind, arr) in v.fields.items()}, v.cls)
    perm = z3.Const(I.p.fresh_name('perm'), z3.ArraySort(z3.IntSort(), z3.IntSort()))
    a_ = z3.Int(I.p.fresh_name('q_a'))
    b_ = z3.Int(I.p.fresh_name('q_b'))
    tn = I.term(n)
    eqs = []
    for k2, (kind, arr) in v.fields.items():
        if kind == 'any':
            continue
        eqs.append(z3.Select(new.fields[k2][1], a_) == z3.Select(arr, z3.Select(perm, a_)))
    I.p.assume(z3.ForAll([a_], z3.Implies(z3.And(a_ >= 0, a_ < tn),
                                          z3.And(z3.Select(perm, a_) >= 0, z3.Select(perm, a_) < tn, *eqs))))
    I.p.assume(z3.ForAll([a_, b_], z3.Implies(z3.And(a_ >= 0, a_ < b_, b_ < tn), z3.Select(perm, a_) != z3.Select(perm, b_))))
    I.noforking += 1
    try:
        ka = I.call(keyf, [L.RecView(new, Sym(INT, a_))], {})
        kb = I.call(keyf, [L.RecView(new, Sym(INT, b_))], {})
    finally:
        I.noforking -= 1
    I.p.assume(z3.ForAll([a_, b_], z3.Implies(z3.And(a_ >= 0, a_ < b_, b_ < tn), I.term(ka) <= I.term(kb))))
    return new


def _b_sorted(I, a, k):
    L = _L()
    v = I.resolve(a[0])
    if isinstance(v, SRecList):
        if k.get('reverse'):
            raise Unsupported('sorted reverse of a symbolic list')
        return _sorted_reclist(I, v, k.get('key'))
    items = I.iterate_concrete(v)
    keyf = k.get('key')
    keys = [I.call(keyf, [x], {}) if keyf is not None else x for x in items]
    rev = k.get('reverse', False)
    if not any(is_sym(x) for x in keys):
        order = sorted(range(len(items)), key=lambda i: keys[i], reverse=bool(rev))
        return [items[i] for i in order]
    if rev:
        raise Unsupported('sorted reverse on symbolic keys')
    # stable insertion sort with forking comparisons (small concrete-length lists only)
    if len(items) > 5:
        raise Unsupported('sorted of >5 symbolic keys')
    out = []
    for x, kx in zip(items, keys):
        pos = len(out)
        while pos > 0 and I.truth(I.compare(ast.Lt, kx, out[pos - 1][1])):
            pos -= 1
        out.insert(pos, (x, kx))
    return [x for x, _ in out]


def _b_filter(I, a, k):
    f, seq = a
    if f is None and isinstance(I.resolve(seq), SRecList):
        return I.resolve(seq)        # every element is an object (truthy)
    out = []
    for x in I.iterate_concrete(seq):
        if f is None:
            if I.truth(x):
                out.append(x)
        elif I.truth(I.call(f, [x], {})):
            out.append(x)
    return out


def _b_map(I, a, k):
    f = a[0]
    if len(a) == 2 and isinstance(I.resolve(a[1]), SRecList):
        # map(f, list of records) for a scalar-valued f: the array index -> f(element)
        L = _L()
        lst = I.resolve(a[1])
        q = z3.Int(I.p.fresh_name('q_map'))
        I.noforking += 1
        try:
            v = I.call(f, [L.RecView(lst, Sym(INT, q))], {})
        finally:
            I.noforking -= 1
        kind = I.kind_of(v)
        if kind is None or not isinstance(v, Sym):
            raise Unsupported('map over a record list with a non-scalar result')
        return SArr(z3.Lambda([q], v.t), lst.n, kind)
    seqs = [I.iterate_concrete(s) for s in a[1:]]
    return [I.call(f, list(t), {}) for t in zip(*seqs)]


def _b_reversed(I, a, k):
    return list(reversed(I.iterate_concrete(a[0])))


def _b_next(I, a, k):
    v = I.resolve(a[0])
    items = v.items if hasattr(v, 'items') and not isinstance(v, dict) else I.iterate_concrete(v)
    if items:
        return items[0]
    if len(a) > 1:
        return a[1]
    raise PyExc('StopIteration')


def _b_round(I, a, k):
    v = I.resolve(a[0])
    if not is_sym(v) and not any(is_sym(x) for x in a[1:]):
        return round(v, *a[1:])
    if isinstance(v, Sym) and v.kind == INT:
        return v
    if isinstance(v, Sym) and v.kind == REAL and len(a) == 1:
        # banker's rounding to int
        t = v.t
        fl = z3.ToInt(t)
        frac = t - z3.ToReal(fl)
        r = z3.If(frac < 0.5, fl, z3.If(frac > 0.5, fl + 1, z3.If(fl % 2 == 0, fl, fl + 1)))
        return Sym(INT, r)
    if isinstance(v, Sym) and v.kind in (REAL, INT) and len(a) == 2 and isinstance(a[1], int) and 0 <= a[1] <= 6:
        # round(x, n): round-half-even of x * 10^n, divided by 10^n (binary float representation error not modelled)
        sc = 10 ** a[1]
        t = I.term(v, REAL) * sc
        fl = z3.ToInt(t)
        frac = t - z3.ToReal(fl)
        r = z3.If(frac < 0.5, fl, z3.If(frac > 0.5, fl + 1, z3.If(fl % 2 == 0, fl, fl + 1)))
        return Sym(REAL, z3.ToReal(r) / sc)
    raise Unsupported('round on symbolic with ndigits')


def _b_divmod(I, a, k):
    return (I.binop(ast.FloorDiv, a[0], a[1]), I.binop(ast.Mod, a[0], a[1]))


def _b_floor(I, a, k):
    v = I.resolve(a[0])
    if isinstance(v, Sym):
        if v.kind == INT:
            return v
        return Sym(INT, z3.ToInt(v.t))
    import math
    return math.floor(v.value if isinstance(v, _L().PyDecimal) else v)


def _b_ceil(I, a, k):
    v = I.resolve(a[0])
    if isinstance(v, Sym):
        if v.kind == INT:
            return v
        return Sym(INT, -z3.ToInt(-v.t))
    import math
    return math.ceil(v)


def _b_print(I, a, k):
    return None


def _b_type(I, a, k):
    v = I.resolve(a[0])
    if isinstance(v, Obj) and v.cls is not None:
        return ClassVal(v.cls)
    raise Unsupported('type()')


def _b_id(I, a, k):
    raise Unsupported('id()')


def _b_ord(I, a, k):
    v = I.resolve(a[0])
    if isinstance(v, str):
        return ord(v)
    if isinstance(v, Sym) and v.kind == STR:
        from . import specnative
        return specnative.char_code(I, v)
    raise Unsupported('ord')


def _b_chr(I, a, k):
    v = I.resolve(a[0])
    if isinstance(v, int):
        return chr(v)
    return Sym(STR, z3.StrFromCode(I.term(v)))


def _b_Decimal(I, a, k):
    L = _L()
    v = I.resolve(a[0]) if a else 0
    if isinstance(v, float):
        # Decimal(0.1) is not one tenth; under the 15-digit context the difference is rounded away once the value
        # is multiplied by a digit (finite lemma validated by tools/validate_lib.py): modelled as the decimal of repr(v)
        return L.PyDecimal(_decimal.Decimal(repr(v)))
    if isinstance(v, (int, str, float)) and not isinstance(v, bool):
        try:
            return L.PyDecimal(_decimal.Decimal(v))
        except _decimal.InvalidOperation:
            raise PyExc('InvalidOperation')
    if isinstance(v, L.PyDecimal):
        return v
    if isinstance(v, Sym):
        if v.kind == INT:
            return Sym(REAL, z3.ToReal(v.t))
        if v.kind == REAL:
            return v
        if v.kind == STR:
            from . import strparts
            r = strparts.int_value(I, v)
            if r is not strparts.NOTFOUND and r != 'ValueError':
                return Sym(REAL, I.term(r, REAL))
            # Decimal(s): modelled through the uninterpreted inverse of str(real)
            return Sym(REAL, L._SREAL(v.t))
    raise Unsupported('Decimal of ' + type(v).__name__)


def _b_callable(I, a, k):
    return isinstance(a[0], (FuncVal, Builtin, BoundBuiltin, Lambda, ClassVal))


_EXC_NAMES = ['ValueError', 'TypeError', 'KeyError', 'IndexError', 'Exception', 'AttributeError',
              'NotImplementedError', 'StopIteration', 'OverflowError', 'ZeroDivisionError', 'BaseException',
              'ArithmeticError', 'LookupError', 'NameError', 'AssertionError']


def _make_exc(name):
    def f(I, a, k):
        return _L().ExcValue(name)
    return f


BUILTINS = {
    'len': _b_len, 'str': _b_str, 'int': _b_int, 'float': _b_float, 'bool': _b_bool, 'isinstance': _b_isinstance,
    'hasattr': _b_hasattr, 'getattr': _b_getattr, 'setattr': _b_setattr, 'delattr': _b_delattr,
    'range': _b_range, 'enumerate': _b_enumerate, 'zip': _b_zip, 'list': _b_list, 'tuple': _b_tuple,
    'dict': _b_dict, 'set': _b_set, 'frozenset': _b_set, 'min': _minmax('min'), 'max': _minmax('max'),
    'abs': _b_abs, 'sum': _b_sum, 'any': _b_any, 'all': _b_all, 'sorted': _b_sorted, 'filter': _b_filter,
    'map': _b_map, 'reversed': _b_reversed, 'next': _b_next, 'round': _b_round, 'divmod': _b_divmod,
    'print': _b_print, 'type': _b_type, 'id': _b_id, 'ord': _b_ord, 'chr': _b_chr, 'callable': _b_callable,
    'iter': lambda I, a, k: a[0],
}
for _n in _EXC_NAMES:
    BUILTINS[_n] = _make_exc(_n)

_CONSTS = {'True': True, 'False': False, 'None': None}


def builtin(name, I):
    L = _L()
    if name in BUILTINS:
        return Builtin(name, BUILTINS[name])
    if name in _CONSTS:
        return _CONSTS[name]
    sp = I.env.spec_builtin(name)
    if sp is not None:
        return sp
    return L.NOTFOUND


def external_module(mod, I):
    return _ExtModule(mod)


class _ExtModule:
    def __init__(self, name):
        self.name = name


def external(mod, attr, I):
    """Models of names imported from outside the repository."""
    from . import libdt
    L = _L()
    r = libdt.external(mod, attr, I)
    if r is not L.NOTFOUND:
        return r
    if mod in ('regex', 're'):
        import regex as _rx
        if attr in ('search', 'match', 'fullmatch'):
            return Builtin('regex.' + attr, lambda I, a, k, _n=attr: _rx_dispatch(I, _n, I.resolve(a[0]), a[1:]))
        if attr == 'finditer':
            return Builtin('regex.finditer', lambda I, a, k: _rx_finditer(I, I.resolve(a[0]), a[1]))
        if attr == 'compile':
            return Builtin('regex.compile', _rx_compile)
        if hasattr(_rx, attr) and isinstance(getattr(_rx, attr), int):
            return int(getattr(_rx, attr))
        return L.LazyUnknown(f'{mod}.{attr}')
    if mod == 'collections' and attr == 'namedtuple':
        return Builtin('namedtuple', _b_namedtuple)
    if mod == 'decimal':
        if attr == 'Decimal':
            return Builtin('Decimal', _b_Decimal)
        if attr == 'getcontext':
            return Builtin('getcontext', lambda I, a, k: DecimalContext())
        if attr in ('localcontext', 'Context'):
            return L.LazyUnknown(f'decimal.{attr}')
    if mod == 'math':
        if attr == 'floor':
            return Builtin('floor', _b_floor)
        if attr == 'ceil':
            return Builtin('ceil', _b_ceil)
    if mod == 'sys' and attr == 'maxsize':
        return _sys.maxsize
    if mod == 'typing':
        alias = {'List': 'list', 'Dict': 'dict', 'Tuple': 'tuple', 'Set': 'set'}
        if attr in alias:
            return Builtin(alias[attr], BUILTINS[alias[attr]])
        return L.LazyUnknown('typing.' + attr)
    if mod in ('abc',):
        return L.LazyUnknown('abc.' + attr)
    if mod == 'enum':
        return _EnumBase(attr)
    if mod == 'copy' and attr in ('deepcopy', 'copy'):
        return Builtin(attr, _b_deepcopy)
    if mod in ('grapheme.api', 'grapheme') and attr == 'slice':
        # grapheme.slice(s) without bounds returns s itself (assumed contract of the external package)
        def _gslice(I, a, k):
            if len(a) != 1 or k:
                raise L.Unsupported('grapheme.slice with bounds')
            return a[0]
        return Builtin('grapheme.slice', _gslice)
    return L.NOTFOUND


class _EnumBase:
    def __init__(self, name):
        self.name = name


def _b_deepcopy(I, a, k):
    memo = {}

    def cp(v):
        if isinstance(v, Obj):
            if id(v) in memo:
                return memo[id(v)]
            o = Obj(v.cls, {}, label=v.label + "'")
            memo[id(v)] = o
            for kk, vv in v.fields.items():
                o.fields[kk] = cp(vv)
            return o
        if isinstance(v, list):
            return [cp(x) for x in v]
        if isinstance(v, dict):
            return {kk: cp(vv) for kk, vv in v.items()}
        if isinstance(v, tuple):
            return tuple(cp(x) for x in v)
        return v
    return cp(I.resolve(a[0]))


def _rx_dispatch(I, how, pattern, a):
    from . import envmodel as E
    if how == 'finditer':
        return _rx_finditer(I, pattern, a[0])
    return E.regex_call(I, how, pattern, a[0])


def _rx_finditer(I, pattern, s):
    from . import envmodel as E
    s = I.resolve(s)
    key = E.pattern_key(pattern)
    src = pattern.source if isinstance(pattern, E.CompiledPattern) else (pattern if isinstance(pattern, str) else None)
    if isinstance(s, str) and src is not None:
        import regex as _rx
        out = []
        for m in _rx.finditer(src, s, flags=pattern.flags if isinstance(pattern, E.CompiledPattern) else 0):
            mv = E.MatchVal(s, m.start(), m.end(), dict(m.groupdict()), False, key)
            mv.declared_only = True
            out.append(mv)
        return out
    env = getattr(I.env.current, 'regex_env', None) or {}
    mode = env.get(key, env.get('*', 'any'))
    if mode == 'none':
        return []
    if isinstance(mode, dict) and 'count' in mode:
        key = key if len(key) < 24 else 'rx' + str(abs(hash(key)) % 10000)
        # up to `count` matches: increasing, non-overlapping (R1); the same (pattern, string) gives the same matches
        ck = ('fi_cache', key, I.term(s).get_id() if not isinstance(s, str) else s)
        if ck in I.p.ghost:
            return list(I.p.ghost[ck][1])
        out = []
        prev_end = 0
        for j in range(mode['count']):
            if mode.get('exact') is not True and not I.branch(z3.Bool(I.p.fresh_name(f'fi_{key}_{j}'))):
                break
            m = E.fresh_match(I, s, f'{key}_{j}', full=bool(mode.get('full')))
            I.p.assume(I.term(m.start) >= prev_end)
            prev_end = I.term(m.end)
            if mode.get('assume'):
                from .symex import Frame
                fr = I.cur_frame
                top = getattr(I, '_top_frame', None)
                extra = dict(top.locals) if top is not None else {}      # the contract's parameters are visible too
                extra['M'] = m
                sub = Frame(fr.func, I.env.spec_module, extra, cls=fr.cls, parent=I.spec_frame(fr))
                I.p.assume(I.formula(I.parse_src(mode['assume']), sub))
            out.append(m)
        I.p.ghost.setdefault(('env_matches', key), []).extend(out)
        I.p.ghost[ck] = (I.term(s) if not isinstance(s, str) else None, out)
        return list(out)
    raise Unsupported(f'finditer({key}) on a symbolic string needs an invariant-level model')


def _rx_compile(I, a, k):
    from . import envmodel as E
    src = I.resolve(a[0])
    flags = a[1] if len(a) > 1 else k.get('flags', 0)
    if isinstance(src, str):
        return E.CompiledPattern(src, None, flags if isinstance(flags, int) else 0)
    if isinstance(src, (E.ConfigAttr, E.CompiledPattern)):
        return src
    return I.unknown('regex.compile of symbolic source')


class DecimalContext:
    """decimal.getcontext(): add / multiply / divide / power are exact real operations (assumption: every intermediate
    result has at most 15 significant digits, the precision the parsers establish)"""
    pass


class NT(tuple):
    """namedtuple instance"""
    _fields = ()
    _name = ''


def _b_namedtuple(I, a, k):
    name, fields = a[0], a[1]
    if isinstance(fields, str):
        fields = fields.replace(',', ' ').split()
    fields = tuple(fields)

    def ctor(I2, args, kwargs, _f=fields, _n=name):
        vals = list(args)
        for f in _f[len(vals):]:
            if f not in kwargs:
                raise PyExc('TypeError', f'missing {f}')
            vals.append(kwargs[f])
        t = NT(vals)
        t._fields = _f
        t._name = _n
        return t
    return Builtin(name, ctor)


def enum_member(I, cls, name):
    return _L().NOTFOUND


def special_class(I, cls, args, kwargs):
    """Repository classes that get a special model (IntEnum / IntFlag subclasses: value lookup)."""
    L = _L()
    for b in cls.base_exprs:
        bn = b.id if isinstance(b, ast.Name) else getattr(b, 'attr', None)
        if bn in ('IntEnum', 'IntFlag', 'Enum'):
            if len(args) == 1:
                v = I.resolve(args[0])
                return v
    return L.NOTFOUND


# ---------------------------------------------------------------------------------------- attributes
class CharList:
    """list(s) for a symbolic string s (read-only use)."""
    def __init__(self, s):
        self.s = s


def get_attribute(I, o, name):
    from . import libdt
    L = _L()
    if isinstance(o, EnumMember):
        if name == 'value':
            return o.value
        if name == 'name':
            return o.name
        raise PyExc('AttributeError', f'{o!r}.{name}')
    r = libdt.get_attribute(I, o, name)
    if r is not L.NOTFOUND:
        return r
    if isinstance(o, NT) and name in o._fields:
        return o[o._fields.index(name)]
    if isinstance(o, (str, list, dict, tuple, set)) or (isinstance(o, Sym)) or isinstance(o, (SSeq, SArr, SRecList, L.PyDecimal, L.ConcreteIter, CharList, L.SMap)):
        return BoundBuiltin(o, name)
    if isinstance(o, Builtin):
        if o.name == 'str':
            return Builtin('str.' + name, lambda I, a, k, _n=name: call_method(I, I.resolve(a[0]), _n, a[1:], k))
        if o.name == 'dict' and name == 'fromkeys':
            return Builtin('dict.fromkeys', lambda I, a, k: {L.hashable(x): (a[1] if len(a) > 1 else None) for x in I.iterate_concrete(a[0])})
        if o.name in ('datetime', 'date'):
            return libdt.class_attribute(I, o.name, name)
        if o.name == 'Decimal':
            raise Unsupported('Decimal.' + name)
    if isinstance(o, _ExtModule):
        e = external(o.name, name, I)
        if e is L.NOTFOUND:
            return I.unknown(f'{o.name}.{name}')
        if isinstance(e, L.LazyUnknown):
            return I.unknown(e.reason)
        return e
    if isinstance(o, DecimalContext):
        ops = {'add': ast.Add, 'multiply': ast.Mult, 'divide': ast.Div, 'subtract': ast.Sub}
        if name in ops:
            return Builtin('ctx.' + name, lambda I, a, k, _op=ops[name]: I.binop(_op, a[0], a[1]))
        if name == 'power':
            return Builtin('ctx.power', lambda I, a, k: I.binop(ast.Pow, a[0], a[1]))
        if name == 'prec':
            return 15
        raise Unsupported('decimal context attribute ' + name)
    from . import envmodel as E
    if isinstance(o, E.EnvConfig):
        return E.get_config_attr(I, o, name)
    if isinstance(o, E.ConfigAttr):
        if name in ('search', 'match', 'fullmatch', 'finditer'):
            return Builtin('pattern.' + name, lambda I, a, k, _p=o, _n=name: _rx_dispatch(I, _n, _p, a))
        return E.ConfigAttr(o.path + '.' + name)
    if isinstance(o, E.CompiledPattern):
        if name in ('search', 'match', 'fullmatch', 'finditer'):
            return Builtin('pattern.' + name, lambda I, a, k, _p=o, _n=name: _rx_dispatch(I, _n, _p, a))
        if name == 'pattern':
            return o.source
        raise Unsupported('pattern.' + name)
    if isinstance(o, E.MatchVal):
        if name == 'string':
            return o.string
        return BoundBuiltin(o, name)
    if isinstance(o, E.EnvFunc):
        raise Unsupported('attribute of env function')
    if isinstance(o, L.RecView):
        return recview_get(I, o, name)
    if isinstance(o, L.ExcValue):
        return I.unknown('exception attribute')
    if isinstance(o, (FuncVal, Lambda)):
        raise Unsupported('function attribute')
    if o is None:
        raise PyExc('AttributeError', f'NoneType.{name}')
    if isinstance(o, (int, float)):
        raise PyExc('AttributeError', f'{type(o).__name__}.{name}')
    raise Unsupported(f'attribute {name} of {type(o).__name__}')


def recview_get(I, rv, name):
    L = _L()
    fld = rv.owner.fields.get(name)
    if fld is None:
        raise PyExc('AttributeError', name)
    kind, arr = fld
    if kind == 'any':
        return I.unknown(f'untracked record field {name}')
    return L.elem_value(I, z3.Select(arr, I.term(rv.i)), kind)


# ---------------------------------------------------------------------------------------- methods
def call_method(I, recv, name, args, kwargs):
    L = _L()
    from . import libdt
    args = list(args)
    if isinstance(recv, (str,)) or (isinstance(recv, Sym) and recv.kind == STR):
        return str_method(I, recv, name, args, kwargs)
    if isinstance(recv, list):
        return list_method(I, recv, name, args, kwargs)
    if isinstance(recv, dict):
        return dict_method(I, recv, name, args, kwargs)
    if isinstance(recv, (tuple,)):
        if name == 'index':
            for i, x in enumerate(recv):
                if I.truth(I.compare(ast.Eq, x, args[0])):
                    return i
            raise PyExc('ValueError')
        if name == 'count':
            return sum(1 for x in recv if I.truth(I.compare(ast.Eq, x, args[0])))
    if isinstance(recv, set):
        if name == 'add':
            recv.add(L.hashable(args[0]))
            return None
        if name in ('union', 'intersection', 'difference'):
            return getattr(recv, name)(*[set(I.iterate_concrete(x)) for x in args])
        if name == 'update':
            for a_ in args:
                for x in I.iterate_concrete(a_):
                    recv.add(L.hashable(x))
            return None
        if name in ('discard', 'remove') and len(args) == 1:
            k_ = L.hashable(args[0])
            if k_ in recv:
                recv.discard(k_)
            elif name == 'remove':
                raise PyExc('KeyError', repr(k_))
            return None
    if isinstance(recv, SSeq):
        return seq_method(I, recv, name, args, kwargs)
    if isinstance(recv, SArr):
        if name == 'append':
            L.arr_append(I, recv, args[0])
            return None
        raise Unsupported('symbolic list method ' + name)
    if isinstance(recv, SRecList):
        if name == 'append':
            o = I.resolve(args[0])
            if isinstance(o, L.RecView):
                L.reclist_store(I, recv, I.term(recv.n), o)
                recv.n = I.binop(ast.Add, recv.n, 1)
                return None
            if not isinstance(o, Obj):
                raise Unsupported('append of a non-object to a record list')
            tn = I.term(recv.n)
            for fname, (kind, arr) in list(recv.fields.items()):
                if fname not in o.fields:
                    raise Unsupported(f'appended object lacks field {fname}')
                if kind == 'any':
                    continue
                recv.fields[fname] = (kind, z3.Store(arr, tn, L.elem_term(I, I.resolve(o.fields[fname]), kind)))
            for fname in o.fields:
                if fname not in recv.fields:
                    raise Unsupported(f'record list has no column for field {fname}')
            recv.n = I.binop(ast.Add, recv.n, 1)
            o.frozen = True
            return None
        raise Unsupported('symbolic record list method ' + name)
    if isinstance(recv, L.PyDecimal):
        raise Unsupported('Decimal.' + name)
    if isinstance(recv, L.SMap):
        if name == 'get':
            tk = I.term(I.resolve(args[0]))
            if I.branch(recv.has(tk)):
                return Sym(recv.valkind, recv.lookup(I, tk))
            return args[1] if len(args) > 1 else None
    if isinstance(recv, Sym) and recv.kind in (INT, REAL):
        if name == 'is_integer':
            if recv.kind == INT:
                return True
            return L.wrap_bool(z3.IsInt(recv.t))
    r = libdt.call_method(I, recv, name, args, kwargs)
    if r is not L.NOTFOUND:
        return r
    from . import envmodel as E
    if isinstance(recv, E.MatchVal):
        return E.match_method(I, recv, name, args, kwargs)
    raise Unsupported(f'method {name} on {type(recv).__name__}')


def _S(I, v):
    """z3 string term of str value"""
    return I.term(v)


def str_method(I, s, name, args, kwargs):
    L = _L()
    args = [I.resolve(a) for a in args]
    if name == 'join' and isinstance(args[0], SArr) and args[0].elem == STR and s == '':
        a0 = args[0]
        r = I.fresh(STR, 'joined')
        q = z3.Int(I.p.fresh_name('q_join'))
        tn = I.term(a0.n)
        all1 = z3.ForAll([q], z3.Implies(z3.And(q >= 0, q < tn), z3.Length(z3.Select(a0.arr, q)) == 1))
        q2 = z3.Int(I.p.fresh_name('q_join'))
        I.p.assume(z3.Implies(all1, z3.And(z3.Length(r.t) == tn,
                                           z3.ForAll([q2], z3.Implies(z3.And(q2 >= 0, q2 < tn),
                                                                      z3.SubString(r.t, q2, 1) == z3.Select(a0.arr, q2))))))
        return r
    conc = isinstance(s, str) and not any(is_sym(a) for a in args)
    if conc:
        if name == 'format':
            if any(is_sym(v) for v in kwargs.values()):
                raise Unsupported('str.format with symbolic kwargs')
            return s.format(*args, **kwargs)
        if name == 'join':
            items = I.iterate_concrete(args[0])
            if any(is_sym(x) for x in items):
                parts = []
                for i, x in enumerate(items):
                    if i:
                        parts.append(s)
                    parts.append(x)
                if any(isinstance(x, Unknown) for x in parts):
                    return I.unknown('join with unknown')
                return L.concat_strs(I, parts)
            try:
                return s.join(items)
            except TypeError:
                raise PyExc('TypeError', 'join')
        try:
            r = getattr(s, name)(*args, **kwargs)
        except ValueError:
            raise PyExc('ValueError')
        except AttributeError:
            raise PyExc('AttributeError', name)
        return r
    if name == 'format':
        if isinstance(s, str):
            return format_method(I, s, args, kwargs)
        raise Unsupported('format on symbolic template')
    if name == 'join':
        raise Unsupported('join on symbolic separator')
    if any(isinstance(a, Unknown) for a in args):
        return I.unknown('str method with unknown arg')
    from . import strparts as SP
    if name == 'startswith' and isinstance(args[0], str):
        r = SP.startswith(s, args[0])
        if r is not SP.NOTFOUND:
            return r
    if name == 'endswith' and isinstance(args[0], str):
        r = SP.endswith(s, args[0])
        if r is not SP.NOTFOUND:
            return r
    if name in ('find', 'index') and len(args) == 1 and isinstance(args[0], str):
        r = SP.find(I, s, args[0])
        if r is not SP.NOTFOUND:
            if name == 'index' and isinstance(r, int) and r < 0:
                raise PyExc('ValueError', 'substring not found')
            return r
    if name == 'split' and args and isinstance(args[0], str) and len(args) == 1 and not kwargs:
        r = SP.split(I, s, args[0])
        if r is not SP.NOTFOUND:
            return r
    if isinstance(s, SChar) and name in ('isnumeric', 'isdigit', 'isdecimal', 'isspace', 'isalpha', 'isupper', 'islower', 'isalnum'):
        return I.env.str_pred(I, name, s)
    if name in ('isnumeric', 'isdigit', 'isdecimal'):
        r = SP.is_digits(s)
        if r is not SP.NOTFOUND:
            return r
    t = _S(I, s)
    if name == 'startswith':
        a = args[0]
        if isinstance(a, tuple):
            return L.wrap_bool(z3.Or(*[z3.PrefixOf(_S(I, x), t) for x in a]))
        return L.wrap_bool(z3.PrefixOf(_S(I, a), t))
    if name == 'endswith':
        a = args[0]
        if isinstance(a, tuple):
            return L.wrap_bool(z3.Or(*[z3.SuffixOf(_S(I, x), t) for x in a]))
        return L.wrap_bool(z3.SuffixOf(_S(I, a), t))
    if name in ('find', 'index') and len(args) == 1 and isinstance(args[0], Sym):
        r = SP.find_stripped_self(s, args[0])
        if r is not SP.NOTFOUND:
            return r
    if name == 'find' or name == 'index':
        sub = _S(I, args[0])
        start = I.term(args[1]) if len(args) > 1 else z3.IntVal(0)
        r = z3.IndexOf(t, sub, start)
        if name == 'index':
            if I.branch(r < 0):
                raise PyExc('ValueError', 'substring not found')
        return Sym(INT, r)
    if name == 'rjust' or name == 'zfill':
        w = args[0]
        fill = args[1] if len(args) > 1 else (' ' if name == 'rjust' else '0')
        if name == 'zfill':
            raise Unsupported('zfill')
        if not isinstance(w, int) or not isinstance(fill, str):
            raise Unsupported('rjust with symbolic width/fill')
        if fill == '0':
            if isinstance(s, Sym) and s.parts is not None and len(s.parts) == 1 and isinstance(s.parts[0], Digits):
                d = s.parts[0]
                if w <= d.width:
                    return s
                t2 = L.pad_int(I, d.n, w)
                return Sym(STR, t2, parts=[Digits(d.n, w, t2)])
            return Sym(STR, L.pad_left_zero(I, t, w))
        ln = z3.Length(t)
        pad = z3.StringVal('')
        for j in range(min(w, 8), 0, -1):
            pad = z3.If(w - ln == j, z3.StringVal(fill * j), pad)
        if w > 8:
            raise Unsupported('rjust width > 8')
        return Sym(STR, z3.If(ln >= w, t, z3.Concat(pad, t)))
    if name == 'replace':
        a, b = args[0], args[1]
        if isinstance(a, str) and SP.replace_absent(s, a):
            return s
        if isinstance(a, str) and isinstance(b, str) and len(a) == 1 and len(b) == 1:
            from . import specnative
            return specnative.replace1(I, s, a, b)
        if isinstance(a, str) and len(a) >= 1:
            # z3 has replace_all
            return Sym(STR, z3.ReplaceAll(t, _S(I, a), _S(I, b))) if hasattr(z3, 'ReplaceAll') else _unsup('replace')
        raise Unsupported('replace with symbolic pattern')
    if name in ('isnumeric', 'isdigit', 'isdecimal'):
        # modelled for ASCII digit strings only; other numeric code points are tainted havoc
        return L.wrap_bool(L._ISDIG(t))
    if name == 'lower':
        r = SP.lower(s)
        if r is not SP.NOTFOUND:
            return r
    if name == 'strip' and not args:
        r = SP.strip(s)
        if r is not SP.NOTFOUND:
            return r
    if name in ('lstrip', 'rstrip') and not args:
        r = SP.strip_side(s, name[0])
        if r is not SP.NOTFOUND:
            return r
    if name == 'lstrip' and len(args) == 1 and isinstance(args[0], str):
        r = SP.lstrip_char(I, s, args[0])
        if r is not SP.NOTFOUND:
            return r
    if name == 'rstrip' and len(args) == 1 and isinstance(args[0], str):
        r = SP.rstrip_char(I, s, args[0])
        if r is not SP.NOTFOUND:
            return r
    if name == 'replace' and len(args) == 2 and isinstance(args[0], str) and SP.replace_absent(s, args[0]):
        return s
    if name in ('lower', 'upper', 'strip', 'lstrip', 'rstrip', 'title', 'casefold'):
        return I.env.str_fun(I, name, s, args)
    if name == 'partition' and len(args) == 1 and isinstance(args[0], str) and args[0]:
        # (head, sep, tail) at the first occurrence of a literal separator, or (s, '', '')
        idx = str_method(I, s, 'find', [args[0]], {})
        if isinstance(idx, int):
            if idx < 0:
                return (s, '', '')
            return (L.slice_(I, s, L.SliceVal(None, idx, None)), args[0], L.slice_(I, s, L.SliceVal(idx + len(args[0]), None, None)))
        if I.branch(I.term(idx) < 0):
            return (s, '', '')
        after = I.binop(ast.Add, idx, len(args[0]))
        return (L.slice_(I, s, L.SliceVal(None, idx, None)), args[0], L.slice_(I, s, L.SliceVal(after, None, None)))
    if name == 'split':
        return split_method(I, s, args, kwargs)
    if name in ('isspace', 'isalpha', 'isupper', 'islower', 'isalnum'):
        return I.env.str_pred(I, name, s)
    if name == 'count':
        raise Unsupported('str.count symbolic')
    if name == 'encode':
        return I.unknown('str.encode')
    raise Unsupported(f'str.{name} on symbolic string')


def _unsup(w):
    raise Unsupported(w)


def split_method(I, s, args, kwargs):
    """s.split(sep) for symbolic s: supported when the number of separators is decided by the path
    condition (forks on 'contains sep' up to a small bound)."""
    L = _L()
    if not args or not isinstance(args[0], str) or len(args[0]) == 0:
        raise Unsupported('split without literal separator')
    sep = args[0]
    maxsplit = args[1] if len(args) > 1 else kwargs.get('maxsplit', -1)
    t = _S(I, s)
    parts = []
    rest = t
    zsep = z3.StringVal(sep)
    for _ in range(6):
        if maxsplit != -1 and len(parts) >= maxsplit:
            break
        if not I.branch(z3.Contains(rest, zsep)):
            parts.append(Sym(STR, rest))
            return [simplify_str(p) for p in parts]
        i = z3.IndexOf(rest, zsep, 0)
        head = z3.SubString(rest, 0, i)
        parts.append(Sym(STR, head))
        rest = z3.SubString(rest, i + len(sep), z3.Length(rest) - i - len(sep))
    if maxsplit != -1:
        parts.append(Sym(STR, rest))
        return [simplify_str(p) for p in parts]
    raise Unsupported('split: more than 6 separators on a path')


def simplify_str(p):
    t = z3.simplify(p.t)
    if z3.is_string_value(t):
        return t.as_string()
    return Sym(STR, t)


def format_method(I, template, args, kwargs):
    """'...{}..{0:02d}..'.format(args) with a concrete template."""
    import string
    L = _L()
    parts = []
    auto = 0
    for lit, field, spec, conv in string.Formatter().parse(template):
        if lit:
            parts.append(lit)
        if field is None:
            continue
        if conv is not None:
            raise Unsupported('format conversion')
        if field == '':
            v = args[auto]
            auto += 1
        elif field.isdigit():
            v = args[int(field)]
        elif field in kwargs:
            v = kwargs[field]
        else:
            raise Unsupported(f'format field {field!r}')
        parts.append(L.format_value(I, v, spec or ''))
    return L.concat_strs(I, parts)


def list_method(I, l, name, args, kwargs):
    L = _L()
    if name == 'append':
        l.append(args[0])
        return None
    if name == 'extend':
        l.extend(I.iterate_concrete(args[0]))
        return None
    if name == 'insert':
        i = I.resolve(args[0])
        if is_sym(i):
            i = L.concretize_index(I, i, len(l))
        l.insert(i, args[1])
        return None
    if name == 'pop':
        if not l:
            raise PyExc('IndexError', 'pop from empty list')
        i = I.resolve(args[0]) if args else -1
        if is_sym(i):
            i = L.concretize_index(I, i, len(l))
        try:
            return l.pop(i)
        except IndexError:
            raise PyExc('IndexError')
    if name == 'clear':
        l.clear()
        return None
    if name == 'copy':
        return list(l)
    if name == 'reverse':
        l.reverse()
        return None
    if name == 'index':
        lo, hi = 0, len(l)
        if len(args) > 1:
            bounds = [I.resolve(b) for b in args[1:3]]
            if not all(isinstance(b, int) for b in bounds):
                raise L.Unsupported('list.index with a symbolic start/stop')
            lo = max(0, bounds[0] + len(l) if bounds[0] < 0 else bounds[0])
            if len(bounds) > 1:
                hi = min(len(l), max(0, bounds[1] + len(l) if bounds[1] < 0 else bounds[1]))
        for i, x in enumerate(l):
            if lo <= i < hi and I.truth(I.compare(ast.Eq, x, args[0])):
                return i
        raise PyExc('ValueError')
    if name == 'remove':
        for i, x in enumerate(l):
            if I.truth(I.compare(ast.Eq, x, args[0])):
                del l[i]
                return None
        raise PyExc('ValueError')
    if name == 'count':
        return sum(1 for x in l if I.truth(I.compare(ast.Eq, x, args[0])))
    if name == 'sort':
        r = _b_sorted(I, [l], kwargs)
        l[:] = r
        return None
    raise Unsupported('list.' + name)


def dict_method(I, d, name, args, kwargs):
    L = _L()
    if name == 'get':
        k = I.resolve(args[0])
        default = args[1] if len(args) > 1 else None
        if not L.deep_sym(k) and not any(L.deep_sym(x) for x in d):
            return d.get(L.hashable(k), default)
        for key in d:
            e = L.eq_term(I, key, k)
            if I.branch(e):
                return d[key]
        return default
    if name == 'items':
        return [(k, v) for k, v in d.items()]
    if name == 'keys':
        return list(d.keys())
    if name == 'values':
        return list(d.values())
    if name == 'update':
        for a in args:
            a = I.resolve(a)
            if isinstance(a, dict):
                d.update(a)
            else:
                raise Unsupported('dict.update arg')
        d.update(kwargs)
        return None
    if name == 'pop':
        k = I.resolve(args[0])
        if is_sym(k):
            raise Unsupported('dict.pop symbolic')
        if L.hashable(k) in d:
            return d.pop(L.hashable(k))
        if len(args) > 1:
            return args[1]
        raise PyExc('KeyError')
    if name == 'setdefault':
        k = L.hashable(I.resolve(args[0]))
        if is_sym(k):
            raise Unsupported('setdefault symbolic')
        return d.setdefault(k, args[1] if len(args) > 1 else None)
    if name == 'copy':
        return dict(d)
    if name == 'clear':
        d.clear()
        return None
    raise Unsupported('dict.' + name)


def seq_method(I, s, name, args, kwargs):
    L = _L()
    if name == 'append':
        s.t = z3.Concat(s.t, z3.Unit(L.elem_term(I, args[0], s.elem)))
        return None
    if name == 'extend':
        o = I.resolve(args[0])
        if isinstance(o, list):
            o = L.seq_of_list(I, o, s.elem)
        s.t = z3.Concat(s.t, o.t)
        return None
    raise Unsupported('seq.' + name)


# ---------------------------------------------------------------------------------------- symbolic constructors
def fresh_like(I, v, hint):
    """A fresh unconstrained value of the same shape as v (loop havoc)."""
    from . import libdt
    L = _L()
    if isinstance(v, bool):
        return I.fresh(BOOL, hint)
    if isinstance(v, int):
        return I.fresh(INT, hint)
    if isinstance(v, float):
        return I.fresh(REAL, hint)
    if isinstance(v, str):
        return I.fresh(STR, hint)
    if isinstance(v, Sym):
        return I.fresh(v.kind, hint)
    if isinstance(v, SDateTime):
        return libdt.fresh_datetime(I, hint)
    if isinstance(v, STimedelta):
        return STimedelta(I.fresh(INT, hint + '_days'), I.fresh(INT, hint + '_secs'))
    if isinstance(v, SSeq):
        v.t = z3.Const(I.p.fresh_name(hint), L.seq_sort(v.elem))     # in place: list identity is kept
        return v
    if isinstance(v, SArr):
        n = I.fresh(INT, hint + '_n')
        I.p.assume(n.t >= 0)
        v.arr = z3.Const(I.p.fresh_name(hint), v.arr.sort())
        v.src = None
        if v.arr2 is not None:
            v.arr2 = z3.Const(I.p.fresh_name(hint + '_s'), v.arr2.sort())
        v.n = n
        return v
    if isinstance(v, SRecList):
        n = I.fresh(INT, hint + '_n')
        I.p.assume(n.t >= 0)
        v.n = n
        v.fields = {k: (kind, None if kind == 'any' else z3.Const(I.p.fresh_name(f'{hint}_{k}'), arr.sort()))
                    for k, (kind, arr) in v.fields.items()}
        return v
    if isinstance(v, SOpt):
        return SOpt(z3.Bool(I.p.fresh_name(hint + '_none')), fresh_like(I, v.val, hint), v.absent)
    if isinstance(v, tuple):
        return tuple(fresh_like(I, x, f'{hint}{i}') for i, x in enumerate(v))
    if v is None:
        raise Unsupported(f'havoc of {hint}: value is None before the loop; declare its type in the loop spec')
    if isinstance(v, list):
        raise Unsupported(f'havoc of concrete list {hint}: declare a symbolic sequence type in the loop spec')
    if isinstance(v, Obj):
        raise Unsupported(f'havoc of object {hint}: declare in the loop spec')
    raise Unsupported(f'havoc of {type(v).__name__} {hint}')


def make_symbolic(I, sort, hint):
    """Build a symbolic value from a sort description (see contract.py for the grammar)."""
    from . import libdt
    from .sorts import build
    return build(I, sort, hint)
