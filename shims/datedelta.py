"""REPLAY-ONLY stand-in for the missing `datedelta` package (DESIGN §4.6).  Never part of a proof.
Assumed semantics: days are exact; months/years shift (year, month); if the day does not exist in the target
month the result rolls to the 1st of the following month (my recollection of the real library — replays that
depend on this are labelled 'replayed under assumed datedelta semantics')."""
import calendar
import datetime as _dt


class datedelta:
    def __init__(self, years=0, months=0, days=0):
        self.years, self.months, self.days = years, months, days

    def __neg__(self):
        return datedelta(-self.years, -self.months, -self.days)

    def __add__(self, other):
        if isinstance(other, datedelta):
            return datedelta(self.years + other.years, self.months + other.months, self.days + other.days)
        return self.__radd__(other)

    def __radd__(self, date):
        tot = date.year * 12 + (date.month - 1) + self.years * 12 + self.months
        y, m = divmod(tot, 12)
        m += 1
        dim = calendar.monthrange(y, m)[1]
        if date.day <= dim:
            r = date.replace(year=y, month=m)
        else:
            tot += 1
            y, m = divmod(tot, 12)
            r = date.replace(year=y, month=m + 1, day=1)
        return r + _dt.timedelta(days=self.days)

    def __rsub__(self, date):
        return (-self).__radd__(date)

    def __mul__(self, k):
        return datedelta(self.years * k, self.months * k, self.days * k)

    __rmul__ = __mul__
