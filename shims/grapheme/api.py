def slice(s, start=None, end=None):
    return s[start:end]


def length(s):
    return len(s)
