"""REPLAY-ONLY stand-in for the missing `grapheme` package: slice() on code points (DESIGN §4.6)."""
from .api import slice, length  # noqa
