"""Spec functions for the TIMEX datatype."""


def exactly_one_duration_unit(t):
    n = 0
    if t.years is not None:
        n = n + 1
    if t.months is not None:
        n = n + 1
    if t.weeks is not None:
        n = n + 1
    if t.days is not None:
        n = n + 1
    if t.hours is not None:
        n = n + 1
    if t.minutes is not None:
        n = n + 1
    if t.seconds is not None:
        n = n + 1
    return n == 1


def duration_seconds(t):
    if t.years is not None:
        return 31536000 * t.years
    if t.months is not None:
        return 2592000 * t.months
    if t.weeks is not None:
        return 604800 * t.weeks
    if t.days is not None:
        return 86400 * t.days
    if t.hours is not None:
        return 3600 * t.hours
    if t.minutes is not None:
        return 60 * t.minutes
    return t.seconds
