"""Spec functions for the TIMEX datatype."""


def exactly_one_duration_unit(t):
    n = 0
    if t.years is not None:
        n = n + 1
    if t.months is not None:
        n = n + 1
    if t.weeks is not None:
        n = n + 1
    if t.days is not None:
        n = n + 1
    if t.hours is not None:
        n = n + 1
    if t.minutes is not None:
        n = n + 1
    if t.seconds is not None:
        n = n + 1
    return n == 1


def duration_seconds(t):
    if t.years is not None:
        return 31536000 * t.years
    if t.months is not None:
        return 2592000 * t.months
    if t.weeks is not None:
        return 604800 * t.weeks
    if t.days is not None:
        return 86400 * t.days
    if t.hours is not None:
        return 3600 * t.hours
    if t.minutes is not None:
        return 60 * t.minutes
    return t.seconds


def secs(t):
    return t.hour * 3600 + t.minute * 60 + t.second


def secs_of_timex(t):
    return t.hour * 3600 + t.minute * 60 + t.second


def timex_time_str(h, mi, s):
    if mi == 0 and s == 0:
        return 'T' + fmt(h, 2)
    if s == 0:
        return 'T' + fmt(h, 2) + ':' + fmt(mi, 2)
    return 'T' + fmt(h, 2) + ':' + fmt(mi, 2) + ':' + fmt(s, 2)


def same_ranges(a, b):
    if len(a) != len(b):
        return False
    for i in range(len(a)):
        if not (a[i].start == b[i].start and a[i].end == b[i].end):
            return False
    return True


def is_pairwise_intersection(r, rs):
    for i in range(len(rs)):
        for j in range(i + 1, len(rs)):
            if r.start == max(rs[i].start, rs[j].start) and r.end == min(rs[i].end, rs[j].end):
                return True
    return False


def all_from(new, old_list, upto):
    """every element new[0:upto] is (field-wise) one of old_list"""
    for k in range(upto):
        found = False
        for o in old_list:
            if new[k].start == o.start and new[k].end == o.end:
                found = True
        if not found:
            return False
    return True


def all_inside_some(result, originals):
    for r in result:
        found = False
        for o in originals:
            if o.start <= r.start and r.end <= o.end:
                found = True
        if not found:
            return False
    return True


def sorted_by_start(rs):
    for i in range(len(rs) - 1):
        if not (rs[i].start <= rs[i + 1].start):
            return False
    return True


def expected_hour(H, is_am, is_pm):
    """24-hour value of clock hour H with an optional am / pm marker (12 am is 00, 12 pm is 12)"""
    h = H
    if is_am:
        if h >= 12:
            h = h - 12
    elif is_pm:
        if h < 12:
            h = h + 12
    if h == 24:
        h = 0
    return h


def same_timex_fields(a, b):
    return (a.now == b.now and a.years == b.years and a.months == b.months and a.weeks == b.weeks and a.days == b.days
            and a.hours == b.hours and a.minutes == b.minutes and a.seconds == b.seconds and a.year == b.year
            and a.month == b.month and a.day_of_month == b.day_of_month and a.day_of_week == b.day_of_week
            and a.season == b.season and a.week_of_year == b.week_of_year and a.weekend == b.weekend
            and a.week_of_month == b.week_of_month and a.part_of_day == b.part_of_day and a.hour == b.hour
            and a.minute == b.minute and a.second == b.second)


def duration_amount(t, unit, prefix):
    if prefix == 'P':
        if unit == 'Y':
            return t.years
        if unit == 'M':
            return t.months
        if unit == 'W':
            return t.weeks
        return t.days
    if unit == 'H':
        return t.hours
    if unit == 'M':
        return t.minutes
    return t.seconds


def dict_of_present(k1, v1, p1, k2, v2, p2):
    out = {}
    if p1:
        out[k1] = v1
    if p2:
        out[k2] = v2
    return out


def all_typed(values, type_name, timex):
    for v in values:
        if not (v["type"] == type_name and v["timex"] == timex):
            return False
    return True


def no_value_is(values, bad):
    for v in values:
        if v["value"] == bad:
            return False
    return True


def untouched_by(er, matches):
    for m in matches:
        if m.start() < er.start + er.length and m.end() > er.start:
            return False
    return True
