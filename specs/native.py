"""Native (CPython) counterparts of the contract-language forms and engine-level spec primitives; used only when
a contract clause is evaluated on concrete values (replay, run-time monitoring)."""
import datetime as _dt


def implies(a, b):
    return (not a) or bool(b)


def iff(a, b):
    return bool(a) == bool(b)


def forall(f, *bounds):
    import itertools
    rs = [range(bounds[2 * i], bounds[2 * i + 1]) for i in range(len(bounds) // 2)]
    return all(f(*t) for t in itertools.product(*rs))


def exists(f, *bounds):
    import itertools
    rs = [range(bounds[2 * i], bounds[2 * i + 1]) for i in range(len(bounds) // 2)]
    return any(f(*t) for t in itertools.product(*rs))


def isdigits(s):
    return isinstance(s, str) and s != '' and s.isascii() and s.isdigit()


def sec_of_day(d):
    return d.hour * 3600 + d.minute * 60 + d.second


def ordinal_of(d):
    return d.toordinal()


def total_seconds_of(d):
    return d.toordinal() * 86400 + sec_of_day(d)


def date_of_ordinal(o):
    return _dt.datetime.fromordinal(o)


def date_with(o, sec):
    return _dt.datetime.fromordinal(o) + _dt.timedelta(seconds=sec)


def amount_shaped(s):
    import re
    return re.fullmatch(r'\d*\.?\d+', s) is not None


def reparse_timex(s):
    from datatypes_timex_expression import Timex
    return Timex(s)


def model_cache():
    from recognizers_text.model import ModelFactory
    return ModelFactory._ModelFactory__cache


def build_trie(phrases, ids):
    from recognizers_text.matcher.trie_tree import TrieTree
    t = TrieTree()
    for p, i in zip(phrases, ids):
        t.insert(list(p), i)
    return t


def build_string_matcher(phrases):
    from recognizers_text.matcher.string_matcher import StringMatcher
    m = StringMatcher()
    m.init(dict(phrases) if isinstance(phrases, dict) else list(phrases))
    return m


def digit_char(v):
    return str(v)


def hex_char(v):
    return '0123456789abcdef'[v]


def letter_char(v):
    return 'abcdefghijklmnopqrstuvwxyz'[v]


def make_unit_value(number, unit):
    from recognizers_number_with_unit.number_with_unit.parsers import UnitValue
    return UnitValue(number, unit)


def repo_const(target, attr):
    import importlib
    path, cls = target.split('::')
    parts = path[:-3].split('/')
    mod = importlib.import_module('.'.join(parts[3:]))       # Python/libraries/<package dir>/<module path>
    return getattr(getattr(mod, cls), attr)


def char_pred(name, c):
    if name == 'isemoji':
        from recognizers_text.utilities import StringUtility
        return StringUtility.is_emoji(c)
    if name == 'issep':
        import regex
        return regex.search('[^\\w\\d]', c, flags=regex.S) is not None
    raise NotImplementedError(name)


def exact_div(a, b):
    """a / b as an exact rational (the symbolic engine divides reals; natively a float would lose the equality)"""
    from fractions import Fraction
    return Fraction(a) / Fraction(b)
