"""Spec functions for tokenizers and the dictionary matcher (C16)."""


def is_cjk_code(uc):
    return ((0x4E00 <= uc and uc <= 0x9FBF) or (0x3400 <= uc and uc <= 0x4DBF) or
            (0x3040 <= uc and uc <= 0x309F) or (0x30A0 <= uc and uc <= 0x30FF) or (0xFF66 <= uc and uc <= 0xFF9D) or
            (0xAC00 <= uc and uc <= 0xD7AF) or (0x1100 <= uc and uc <= 0x11FF) or (0x3130 <= uc and uc <= 0x318F) or
            (0xFFB0 <= uc and uc <= 0xFFDC))


def sep_char(c):
    """a character that forms a token of its own: not a space, and (neither digit nor letter, or CJK)"""
    return (not c.isspace()) and ((not (c.isdigit() or c.isalpha())) or is_cjk_code(ord(c)))


def material_char(c):
    """a character that extends a word token"""
    return (not c.isspace()) and (c.isdigit() or c.isalpha()) and not is_cjk_code(ord(c))
