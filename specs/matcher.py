"""Spec functions for tokenizers and the dictionary matcher (C16)."""


def is_cjk_code(uc):
    return ((0x4E00 <= uc and uc <= 0x9FBF) or (0x3400 <= uc and uc <= 0x4DBF) or
            (0x3040 <= uc and uc <= 0x309F) or (0x30A0 <= uc and uc <= 0x30FF) or (0xFF66 <= uc and uc <= 0xFF9D) or
            (0xAC00 <= uc and uc <= 0xD7AF) or (0x1100 <= uc and uc <= 0x11FF) or (0x3130 <= uc and uc <= 0x318F) or
            (0xFFB0 <= uc and uc <= 0xFFDC))


def sep_char(c):
    """a character that forms a token of its own: not a space, and (neither digit nor letter, or CJK)"""
    return (not c.isspace()) and ((not (c.isdigit() or c.isalpha())) or is_cjk_code(ord(c)))


def material_char(c):
    """a character that extends a word token"""
    return (not c.isspace()) and (c.isdigit() or c.isalpha()) and not is_cjk_code(ord(c))


def expected_matches(phrases, ids, query):
    """naive oracle: for every start i (ascending) and end j (ascending), the ids of all phrases equal to query[i:j]"""
    out = []
    for i in range(len(query)):
        for j in range(i, len(query) + 1):
            found = []
            for k in range(len(phrases)):
                p = phrases[k]
                if len(p) == j - i:
                    same = True
                    for t in range(len(p)):
                        if not (p[t] == query[i + t]):
                            same = False
                    if same:
                        found.append(ids[k])
            if len(found) > 0:
                out.append((i, j - i, found))
    return out


def matches_equal(results, expected):
    if len(results) != len(expected):
        return False
    for k in range(len(results)):
        r = results[k]
        e = expected[k]
        if not (r.start == e[0] and r.length == e[1] and len(r.canonical_values) == len(e[2])):
            return False
        for t in range(len(e[2])):
            if not (r.canonical_values[t] == e[2][t]):
                return False
    return True


def is_chinese_code(uc):
    return (0x4E00 <= uc and uc <= 0x9FBF) or (0x3400 <= uc and uc <= 0x4DBF)


def is_japanese_code(uc):
    return (0x3040 <= uc and uc <= 0x309F) or (0x30A0 <= uc and uc <= 0x30FF) or (0xFF66 <= uc and uc <= 0xFF9D)


def nu_sep_char(c):
    """number-with-unit tokenizer: a character that is a token of its own"""
    return (not c.isspace()) and (((not (c == '$')) and not (c.isdigit() or c.isalpha())) or
                                  is_chinese_code(ord(c)) or is_japanese_code(ord(c)))


def nu_material_char(c):
    return (not c.isspace()) and not nu_sep_char(c)


def match_spans(results):
    out = []
    for r in results:
        out.append((r.start, r.length))
    return out


def match_ids(results):
    """per match (in order): the sorted list of canonical ids"""
    out = []
    for r in results:
        out.append(sorted(list(r.canonical_values)))
    return out


def digits_text(vals):
    out = ''
    for v in vals:
        out = out + digit_char(v)
    return out


def canon_digits(vals):
    """decimal numeral of the same number without leading zeros ('0' for zero)"""
    k = 0
    while k < len(vals) - 1 and vals[k] == 0:
        k = k + 1
    out = ''
    for j in range(k, len(vals)):
        out = out + digit_char(vals[j])
    return out


def ipv4_text(octets):
    out = ''
    for k in range(len(octets)):
        if k > 0:
            out = out + '.'
        out = out + digits_text(octets[k])
    return out


def ipv4_canon(octets):
    out = ''
    for k in range(len(octets)):
        if k > 0:
            out = out + '.'
        out = out + canon_digits(octets[k])
    return out


def hex_text(vals):
    out = ''
    for v in vals:
        out = out + hex_char(v)
    return out


def canon_hex(vals):
    k = 0
    while k < len(vals) - 1 and vals[k] == 0:
        k = k + 1
    out = ''
    for j in range(k, len(vals)):
        out = out + hex_char(vals[j])
    return out


def ipv6_text(groups, ellipsis_after):
    """hextets joined by ':'; ellipsis_after = k puts '::' after group k-1 (k = 0: leading '::'), -1: none"""
    out = ''
    for k in range(len(groups)):
        if k == ellipsis_after:
            out = out + '::'
        elif k > 0:
            out = out + ':'
        out = out + hex_text(groups[k])
    if ellipsis_after == len(groups):
        out = out + '::'
    return out


def ipv6_canon(groups, ellipsis_after):
    out = ''
    for k in range(len(groups)):
        if k == ellipsis_after:
            out = out + '::'
        elif k > 0:
            out = out + ':'
        out = out + canon_hex(groups[k])
    if ellipsis_after == len(groups):
        out = out + '::'
    return out


def digits_value(vals):
    """the integer written by a list of decimal digit values"""
    n = 0
    for v in vals:
        n = n * 10 + v
    return n


def literal_text(groups, group_mark, frac, decimal_mark, negative):
    """a numeric literal: optional '-', digit groups joined by the group mark, optional decimal mark + fraction digits"""
    out = '-' if negative else ''
    for k in range(len(groups)):
        if k > 0:
            out = out + group_mark
        out = out + digits_text(groups[k])
    if len(frac) > 0:
        out = out + decimal_mark + digits_text(frac)
    return out


def literal_value(groups, frac, negative):
    """the number such a literal denotes"""
    whole = 0
    for g in groups:
        for v in g:
            whole = whole * 10 + v
    val = whole
    if len(frac) > 0:
        val = whole + exact_div(digits_value(frac), 10 ** len(frac))
    return -val if negative else val


def strip_trailing_zeros(frac):
    k = len(frac)
    while k > 0 and frac[k - 1] == 0:
        k = k - 1
    out = []
    for j in range(k):
        out.append(frac[j])
    return out
