"""Spec functions for culture routing (C17).  The supported codes are those of the property statement / Culture class."""

SUPPORTED = ['en-us', 'en-*', 'nl-nl', 'zh-cn', 'fr-fr', 'it-it', 'ja-jp', 'ko-kr', 'pt-br', 'es-es', 'es-mx', 'tr-tr', 'de-de']
# cultures for which at least one recogniser registers a model ('en-*' is a routing placeholder only)
REGISTERED = ['en-us', 'nl-nl', 'zh-cn', 'fr-fr', 'it-it', 'ja-jp', 'ko-kr', 'pt-br', 'es-es', 'es-mx', 'tr-tr', 'de-de']


def lang_part(code):
    return code.split('-')[0].strip()


def same_language_cultures(lowered):
    """supported cultures whose language part equals the language part of the lowered code"""
    out = []
    p = lang_part(lowered)
    for s in SUPPORTED:
        if s.split('-')[0] == p:
            out.append(s)
    return out


LANGS = ['en', 'nl', 'zh', 'fr', 'it', 'ja', 'ko', 'pt', 'es', 'tr', 'de']
# every proper prefix of a supported language part (the inputs on which prefix matching and language matching differ)
PROPER_PREFIXES = ['', 'e', 'n', 'z', 'f', 'i', 'j', 'k', 'p', 't', 'd']


def case_variant(code, mask):
    """code with the letters selected by the bits of mask upper-cased"""
    out = ''
    b = 0
    for ch in code:
        if ch.isalpha():
            if (mask >> b) % 2 == 1:
                out = out + ch.upper()
            else:
                out = out + ch
            b = b + 1
        else:
            out = out + ch
    return out


def cache_lookup(cache, t, c, o):
    """the model stored under exactly (t, c, o), else None"""
    for key in cache:
        if key[0] == t and key[1] == c and key[2] == o:
            return cache[key]
    return None


def cache_consistent(cache):
    """every cached model was built for exactly the key it is stored under"""
    for key in cache:
        m = cache[key]
        if not (m.origin[0] == key[0] and m.origin[1] == key[1] and m.origin[2] == key[2]):
            return False
    return True


def old_entries_kept(cache, entries0):
    for e in entries0:
        if cache_lookup(cache, e[0][0], e[0][1], e[0][2]) is not e[1]:
            return False
    return True


def has_factory(factories, t, c):
    for key in factories:
        if key[0] == t and key[1] == c:
            return True
    return False


def origin_is(m, t, c, o):
    return m.origin[0] == t and m.origin[1] == c and m.origin[2] == o
