"""Calendar spec functions.  Pure Python in the verified subset: interpreted symbolically by pyvc for the proof,
executed natively by CPython for replay / validation (tools/validate_lib.py compares them with datetime)."""


def is_leap(y):
    return y % 4 == 0 and (y % 100 != 0 or y % 400 == 0)


def days_in_month(y, m):
    if m == 2:
        return 29 if is_leap(y) else 28
    if m == 4 or m == 6 or m == 9 or m == 11:
        return 30
    return 31


def valid_date(y, m, d):
    return 1 <= y and y <= 9999 and 1 <= m and m <= 12 and 1 <= d and d <= days_in_month(y, m)


def ordinal(y, m, d):
    """proleptic Gregorian ordinal, 0001-01-01 = 1"""
    yy = y - 1
    before_year = yy * 365 + yy // 4 - yy // 100 + yy // 400
    before_month = (367 * m - 362) // 12
    if m > 2:
        before_month = before_month - (1 if is_leap(y) else 2)
    return before_year + before_month + d


def weekday_of_ordinal(o):
    """Monday = 0"""
    return (o + 6) % 7


def next_month(y, m):
    if m == 12:
        return (y + 1, 1)
    return (y, m + 1)


def fmt(n, w):
    return str(n).rjust(w, '0')


def date_str(y, m, d):
    return fmt(y, 4) + '-' + fmt(m, 2) + '-' + fmt(d, 2)


def time_str(h, mi, s):
    return fmt(h, 2) + ':' + fmt(mi, 2) + ':' + fmt(s, 2)


def iso_week1_monday(y):
    """ordinal of the Monday of ISO week 1 of ISO year y: the week containing January 4th"""
    jan4 = ordinal(y, 1, 4)
    return jan4 - weekday_of_ordinal(jan4)


def weeks_in_iso_year(y):
    return (iso_week1_monday(y + 1) - iso_week1_monday(y)) // 7


def iso_week_monday(y, w):
    return iso_week1_monday(y) + 7 * (w - 1)


def last_weekday_before(o, iso_dow):
    """ordinal of the latest day strictly before ordinal o whose ISO weekday (Mon=1..Sun=7) is iso_dow"""
    delta = (weekday_of_ordinal(o) - (iso_dow - 1)) % 7
    if delta == 0:
        delta = 7
    return o - delta


def next_weekday_after(o, iso_dow):
    delta = ((iso_dow - 1) - weekday_of_ordinal(o)) % 7
    if delta == 0:
        delta = 7
    return o + delta


def date_str_of_ordinal(o):
    d = date_of_ordinal(o)
    return date_str(d.year, d.month, d.day)


def first_match(start_ord, day):
    """ordinal of the first day >= start_ord whose weekday (Monday = 0) is `day`"""
    return start_ord + (day - weekday_of_ordinal(start_ord)) % 7


def monday_of(o):
    """ordinal of the Monday of the ISO week containing ordinal o"""
    return o - weekday_of_ordinal(o)


def next_leap_at_or_after(y):
    """smallest leap year >= y (valid while no two consecutive non-leap centuries: fine for 1900..2099)"""
    for k in range(0, 9):
        if is_leap(y + k):
            return y + k
    return y + 8


def prev_leap_at_or_before(y):
    for k in range(0, 9):
        if is_leap(y - k):
            return y - k
    return y - 8


def earliest_on_or_after(month, day, ref_ord, ref_year):
    """ordinal of the earliest date with this (month, day) whose ordinal is >= ref_ord (ref_year = year of ref_ord)"""
    if month == 2 and day == 29:
        y = next_leap_at_or_after(ref_year)
        if ordinal(y, 2, 29) >= ref_ord:
            return ordinal(y, 2, 29)
        y2 = next_leap_at_or_after(y + 1)
        return ordinal(y2, 2, 29)
    if ordinal(ref_year, month, day) >= ref_ord:
        return ordinal(ref_year, month, day)
    return ordinal(ref_year + 1, month, day)


def latest_before(month, day, ref_ord, ref_year):
    """ordinal of the latest date with this (month, day) whose ordinal is < ref_ord"""
    if month == 2 and day == 29:
        y = prev_leap_at_or_before(ref_year)
        if ordinal(y, 2, 29) < ref_ord:
            return ordinal(y, 2, 29)
        y2 = prev_leap_at_or_before(y - 1)
        return ordinal(y2, 2, 29)
    if ordinal(ref_year, month, day) < ref_ord:
        return ordinal(ref_year, month, day)
    return ordinal(ref_year - 1, month, day)


def pt_duration_str(total):
    """'PT…H…M…S' denoting `total` seconds (hours unbounded, zero components omitted)"""
    h = total // 3600
    m = total % 3600 // 60
    s = total % 60
    out = 'PT'
    if h > 0:
        out = out + str(h) + 'H'
    if m > 0:
        out = out + str(m) + 'M'
    if s > 0:
        out = out + str(s) + 'S'
    return out


def iso_year_of_week(monday_ord):
    """ISO year of the week that starts on this Monday: the calendar year of its Thursday"""
    return date_of_ordinal(monday_ord + 3).year


def iso_week_of_week(monday_ord):
    return (monday_ord - iso_week1_monday(iso_year_of_week(monday_ord))) // 7 + 1


def shift_month(y, m, k):
    """(year, month) k months after (y, m)"""
    t = y * 12 + (m - 1) + k
    return (t // 12, t % 12 + 1)


def nth_weekday_of_month(y, m, wd, c):
    """ordinal of the c-th weekday wd (ISO 1 = Monday .. 7 = Sunday) of month (y, m); the last one when the month has no c-th"""
    first = ordinal(y, m, 1)
    o = first + (wd - 1 - weekday_of_ordinal(first)) % 7 + 7 * (c - 1)
    return o if o < first + days_in_month(y, m) else o - 7
