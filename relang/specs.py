"""Specification automata, written from the property text (not from the patterns)."""


class Ipv4Spec:
    """dotted quad: four decimal numbers 0..255 of at most three digits, separated by single dots"""
    def initial(self):
        return (0, 0, 0)         # (octet index, digits in the current octet, value)

    def step(self, st, ch):
        k, nd, val = st
        if ch in '0123456789':
            if nd >= 3:
                return None
            v = val * 10 + int(ch)
            if v > 255:
                return None
            return (k, nd + 1, v)
        if ch == '.':
            if nd == 0 or k >= 3:
                return None
            return (k + 1, 0, 0)
        return None

    def accepting(self, st):
        k, nd, val = st
        return k == 3 and nd >= 1


HEX = '0123456789abcdefABCDEF'


class GuidElementSpec:
    """8-4-4-4-12 hexadecimal digits with dashes, or 32 hexadecimal digits"""
    def __init__(self, prefix='', suffix='', ci_prefix=False):
        self.prefix, self.suffix = prefix, suffix

    def initial(self):
        return ('p', 0, None)

    def _elem_step(self, es, ch):
        mode, n = es          # mode: None undecided, 'd' dashed, 'u' undashed
        if ch in HEX:
            if mode == 'd':
                # positions of dashes at 8, 13, 18, 23 (counting dashes): total length 36
                if n in (8, 13, 18, 23) or n >= 36:
                    return None
                return ('d', n + 1)
            if n >= 32:
                return None
            return (mode, n + 1)
        if ch == '-':
            if (mode is None and n == 8) or (mode == 'd' and n in (13, 18, 23)):
                return ('d', n + 1)
            return None
        return None

    def step(self, st, ch):
        phase, i, es = st
        if phase == 'p':
            if i < len(self.prefix):
                if ch.lower() == self.prefix[i].lower():
                    return ('p', i + 1, None) if i + 1 < len(self.prefix) else ('e', 0, (None, 0))
                return None
            phase, es = 'e', (None, 0)
        if phase == 'e':
            ne = self._elem_step(es, ch)
            if ne is not None:
                return ('e', 0, ne)
            if self._elem_done(es) and self.suffix and ch.lower() == self.suffix[0].lower():
                return ('s', 1, None)
            return None
        if phase == 's':
            if i < len(self.suffix) and ch.lower() == self.suffix[i].lower():
                return ('s', i + 1, None)
            return None
        return None

    def _elem_done(self, es):
        mode, n = es
        return (mode == 'd' and n == 36) or (mode is None and n == 32)

    def accepting(self, st):
        phase, i, es = st
        if phase == 'p':
            return False
        if phase == 'e':
            return self._elem_done(es) and not self.suffix
        return phase == 's' and i == len(self.suffix)


class UnionSpec:
    def __init__(self, *specs):
        self.specs = specs

    def initial(self):
        return tuple(s.initial() for s in self.specs)

    def step(self, st, ch):
        nx = tuple(None if x is None else s.step(x, ch) for s, x in zip(self.specs, st))
        if all(x is None for x in nx):
            return None
        return nx

    def accepting(self, st):
        return any(x is not None and s.accepting(x) for s, x in zip(self.specs, st))
