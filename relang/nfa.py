"""Regular-language checker (DESIGN §5.2): the REAL pattern text is parsed with CPython's sre parser, compiled to an
NFA over a finite alphabet of character classes (exact: code points are partitioned by membership in every atom of the
pattern and by word / non-word), with \\b / \\B evaluated from the classes of the neighbouring characters, and compared
with a specification automaton by an on-the-fly product (both inclusions).  Subset: literals, classes, \\d \\w \\s,
alternation, groups, bounded repetition, \\b \\B ^ $.  Anything else makes the pattern out of scope (NotRegular)."""
import re
import sys

try:
    import re._parser as sre_parse
    import re._constants as C
except ImportError:      # pragma: no cover
    import sre_parse
    import sre_constants as C


class NotRegular(Exception):
    pass


class Atom:
    """a set of code points given by a predicate"""
    def __init__(self, pred, desc):
        self.pred, self.desc = pred, desc


def _cat(av):
    if av == C.CATEGORY_DIGIT:
        return lambda ch: ch.isdecimal()        # \\d on str patterns: Unicode category Nd
    if av == C.CATEGORY_WORD:
        return lambda ch: ch.isalnum() or ch == '_'
    if av == C.CATEGORY_SPACE:
        return lambda ch: ch.isspace()
    if av == C.CATEGORY_NOT_DIGIT:
        return lambda ch: not ch.isdecimal()
    if av == C.CATEGORY_NOT_WORD:
        return lambda ch: not (ch.isalnum() or ch == '_')
    if av == C.CATEGORY_NOT_SPACE:
        return lambda ch: not ch.isspace()
    raise NotRegular(f'category {av}')


def is_word(ch):
    return ch.isalnum() or ch == '_'


class NFA:
    def __init__(self):
        self.n = 0
        self.eps = {}        # state -> [(target, guard)] guard in (None, 'b', 'B', 'bos', 'eos')
        self.trans = {}      # state -> [(atom index, target)]
        self.atoms = []
        self.start = self.new()
        self.final = None

    def new(self):
        s = self.n
        self.n += 1
        self.eps[s] = []
        self.trans[s] = []
        return s

    def atom(self, pred, desc):
        self.atoms.append(Atom(pred, desc))
        return len(self.atoms) - 1


def build(pattern, flags=0):
    tree = sre_parse.parse(pattern, flags)
    ic = bool(flags & re.IGNORECASE)
    nfa = NFA()

    def lit_pred(c):
        ch = chr(c)
        if ic:
            return lambda x, _l=ch.lower(), _u=ch.upper(): x == _l or x == _u or x.lower() == _l
        return lambda x, _c=ch: x == _c

    def in_pred(av):
        neg = False
        preds = []
        for op, a in av:
            if op == C.NEGATE:
                neg = True
            elif op == C.LITERAL:
                preds.append(lit_pred(a))
            elif op == C.RANGE:
                lo, hi = a
                if ic:
                    preds.append(lambda x, _lo=lo, _hi=hi: _lo <= ord(x) <= _hi or any(_lo <= ord(y) <= _hi for y in (x.lower(), x.upper()) if len(y) == 1))
                else:
                    preds.append(lambda x, _lo=lo, _hi=hi: _lo <= ord(x) <= _hi)
            elif op == C.CATEGORY:
                preds.append(_cat(a))
            else:
                raise NotRegular(f'class item {op}')
        if neg:
            return lambda x: not any(p(x) for p in preds)
        return lambda x: any(p(x) for p in preds)

    def comp(seq, s):
        """compile sequence starting at state s; returns end state"""
        for op, av in seq:
            if op == C.LITERAL:
                t = nfa.new()
                nfa.trans[s].append((nfa.atom(lit_pred(av), repr(chr(av))), t))
                s = t
            elif op == C.NOT_LITERAL:
                p = lit_pred(av)
                t = nfa.new()
                nfa.trans[s].append((nfa.atom(lambda x, _p=p: not _p(x), 'not ' + repr(chr(av))), t))
                s = t
            elif op == C.ANY:
                t = nfa.new()
                if flags & re.DOTALL:
                    nfa.trans[s].append((nfa.atom(lambda x: True, '.'), t))
                else:
                    nfa.trans[s].append((nfa.atom(lambda x: x != '\n', '.'), t))
                s = t
            elif op == C.IN:
                t = nfa.new()
                nfa.trans[s].append((nfa.atom(in_pred(av), 'class'), t))
                s = t
            elif op == C.BRANCH:
                end = nfa.new()
                for alt in av[1]:
                    a0 = nfa.new()
                    nfa.eps[s].append((a0, None))
                    e = comp(alt, a0)
                    nfa.eps[e].append((end, None))
                s = end
            elif op == C.SUBPATTERN:
                s = comp(av[3], s)
            elif op in (C.MAX_REPEAT, C.MIN_REPEAT):
                lo, hi, sub = av
                if hi == C.MAXREPEAT:
                    for _ in range(lo):
                        s = comp(sub, s)
                    loop = nfa.new()
                    nfa.eps[s].append((loop, None))
                    e = comp(sub, loop)
                    nfa.eps[e].append((loop, None))
                    s = loop
                else:
                    if hi > 64:
                        raise NotRegular('repetition bound too large')
                    for _ in range(lo):
                        s = comp(sub, s)
                    end = nfa.new()
                    nfa.eps[s].append((end, None))
                    for _ in range(hi - lo):
                        s = comp(sub, s)
                        nfa.eps[s].append((end, None))
                    s = end
            elif op == C.AT:
                t = nfa.new()
                if av == C.AT_BOUNDARY:
                    nfa.eps[s].append((t, 'b'))
                elif av == C.AT_NON_BOUNDARY:
                    nfa.eps[s].append((t, 'B'))
                elif av in (C.AT_BEGINNING, C.AT_BEGINNING_STRING):
                    nfa.eps[s].append((t, 'bos'))
                elif av in (C.AT_END_STRING,):
                    nfa.eps[s].append((t, 'eos'))
                elif av == C.AT_END:
                    nfa.eps[s].append((t, 'eos'))     # '$' before a final newline is not modelled: patterns here have none
                else:
                    raise NotRegular(f'anchor {av}')
                s = t
            else:
                raise NotRegular(f'construct {op}')
        return s

    nfa.final = comp(tree, nfa.start)
    return nfa


def alphabet(nfa, extra='', ascii_only=False):
    """one representative per equivalence class of code points w.r.t. all atoms and word-ness (BMP + a few astral)"""
    classes = {}
    cands = [chr(c) for c in range(0x0, 0x80 if ascii_only else 0x3000)] + ([] if ascii_only else [chr(c) for c in (0x4E2D, 0xFF10, 0x1F600)]) + list(extra)
    for ch in cands:
        key = tuple(a.pred(ch) for a in nfa.atoms) + (is_word(ch),)
        if key not in classes:
            classes[key] = ch
    return sorted(classes.values())


def closure(nfa, states, prev_word, next_word, at_start, at_end):
    out = set(states)
    stack = list(states)
    while stack:
        s = stack.pop()
        for t, g in nfa.eps[s]:
            ok = (g is None or (g == 'b' and prev_word != next_word) or (g == 'B' and prev_word == next_word)
                  or (g == 'bos' and at_start) or (g == 'eos' and at_end))
            if ok and t not in out:
                out.add(t)
                stack.append(t)
    return out


class SubsetSim:
    """deterministic simulation of `fullmatch` (string edges count as non-word)"""
    def __init__(self, nfa, alpha):
        self.nfa, self.alpha = nfa, alpha
        self.atom_tab = {ch: [a.pred(ch) for a in nfa.atoms] for ch in alpha}

    def initial(self):
        return (frozenset([self.nfa.start]), False, True)      # (states before pending closure, prev_word, at_start)

    def step(self, st, ch):
        states, prev_word, at_start = st
        cl = closure(self.nfa, states, prev_word, is_word(ch), at_start, False)
        nxt = set()
        tab = self.atom_tab[ch]
        for s in cl:
            for ai, t in self.nfa.trans[s]:
                if tab[ai]:
                    nxt.add(t)
        return (frozenset(nxt), is_word(ch), False)

    def accepting(self, st):
        states, prev_word, at_start = st
        return self.nfa.final in closure(self.nfa, states, prev_word, False, at_start, True)

    def dead(self, st):
        return not st[0]


def compare(pattern, flags, spec, spec_alpha_extra='', max_states=400000, ascii_only=False):
    """spec: object with initial(), step(state, ch) -> state or None (dead), accepting(state).
    Returns (equal?, witness string or None, which side accepts the witness, explored pairs)."""
    from collections import deque
    nfa = build(pattern, flags)
    alpha = alphabet(nfa, spec_alpha_extra, ascii_only)
    sim = SubsetSim(nfa, alpha)
    start = (sim.initial(), spec.initial())
    seen = {start: None}
    q = deque([start])
    n = 0
    while q:
        cur = q.popleft()
        n += 1
        a, b = cur
        acc_a = sim.accepting(a)
        acc_b = b is not None and spec.accepting(b)
        if acc_a != acc_b:
            # rebuild the witness
            w = []
            x = cur
            while seen[x] is not None:
                x, ch = seen[x]
                w.append(ch)
            return False, ''.join(reversed(w)), 'pattern' if acc_a else 'spec', n
        if n > max_states:
            raise NotRegular('product too large')
        for ch in alpha:
            na = sim.step(a, ch)
            nb = spec.step(b, ch) if b is not None else None
            if sim.dead(na) and nb is None:
                continue
            nx = (na, nb)
            if nx not in seen:
                seen[nx] = (cur, ch)
                q.append(nx)
    return True, None, None, n
