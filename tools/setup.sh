#!/bin/sh
# Builds /verif/.venv offline: python 3.12 (same interpreter family that runs the repo) + z3/cvc5/crosshair/jsonschema
# from the local wheelhouse, plus a .pth that exposes /venv's site-packages (regex, emoji, multipledispatch).
set -e
cd "$(dirname "$0")/.."
if [ -x .venv/bin/python ] && .venv/bin/python -c "import z3, jsonschema, regex" 2>/dev/null; then
  echo "setup: .venv already usable"
else
  rm -rf .venv
  /venv/bin/python -m venv .venv
  PIP_NO_INDEX=1 .venv/bin/pip install -q --no-index --find-links /opt/veriftools/wheels z3-solver jsonschema crosshair-tool cvc5 >/dev/null
  SP=$(.venv/bin/python -c "import sysconfig; print(sysconfig.get_paths()['purelib'])")
  echo "import site; site.addsitedir('/venv/lib/python3.12/site-packages')" > "$SP/zz_repo_deps.pth"
fi
.venv/bin/python -m compileall -q pyvc checks specs tools 2>/dev/null || true
.venv/bin/python -c "import z3, jsonschema, regex; print('setup: ok z3', z3.get_version_string())"
