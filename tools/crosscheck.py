"""Engine cross-check (guards the home-made verifier, DESIGN 0.3 / 3.5): for every contract the engine PROVED, sample
concrete inputs that satisfy the declared domain and the preconditions (solver models under different random seeds),
call the REAL function natively and evaluate every postcondition natively.  A proved postcondition that is false on a
sampled input is an engine (or library-model) unsoundness.  Inputs that cannot be rebuilt natively (opaque environment
patterns, record lists) are skipped and counted.

usage: crosscheck.py [property ids ...] [--samples N] [--seed S]      exit 0 no disagreement / 3 disagreement"""
import argparse
import json
import os
import random
import subprocess
import sys
import tempfile
from concurrent.futures import ThreadPoolExecutor

VERIF = os.path.dirname(os.path.dirname(os.path.abspath(__file__)))
sys.path.insert(0, VERIF)

import z3      # noqa: E402
from pyvc import runner, sorts      # noqa: E402
from pyvc.contract import VerifEnv, snapshot      # noqa: E402
from pyvc.path import Path, PathEnd, Unsupported      # noqa: E402
from pyvc.symex import Interp, Frame, PyExc      # noqa: E402
from pyvc.values import Sym, INT, STR      # noqa: E402
from pyvc.witness import concretize      # noqa: E402


from pyvc.sampling import sample      # noqa: E402


def main():
    ap = argparse.ArgumentParser()
    ap.add_argument('props', nargs='*')
    ap.add_argument('--samples', type=int, default=3)
    ap.add_argument('--seed', type=int, default=int(os.environ.get('VERIF_SEED', '1')))
    ap.add_argument('--only', default=None)
    a = ap.parse_args()
    known = {k.get('contract') for k in json.load(open(os.path.join(VERIF, 'known_findings.json')))['findings']}
    contracts = [c for c in runner.all_contracts() if not c.assumed and not c.bounded and c.ensures and c.id not in known
                 and (not a.props or set(a.props) & set(c.props)) and (a.only is None or a.only in c.id)]
    byid = {c.id: c for c in runner.all_contracts()}

    def natively_runnable(c):
        if c.setup is not None:
            return False      # the set-up hook installs engine-side environment objects that have no native counterpart
        if any(v != 'none' for v in (c.regex_env or {}).values()):
            return False      # regex matches are environment values
        # an assumed callee contract stands for an environment the real callee does not have natively
        for m in c.modular:
            cc = byid.get(m[3:]) if m.startswith('id:') else None
            if cc is not None and cc.assumed:
                return False
        return True
    not_native = [c.id for c in contracts if not natively_runnable(c)]
    contracts = [c for c in contracts if natively_runnable(c)]
    env = VerifEnv(contracts)
    tmp = tempfile.mkdtemp(prefix='crosscheck_')
    jobs = []
    skipped = {}
    for c in contracts:
        try:
            ws, why = sample(env, c, a.samples, a.seed)
        except Exception as e:      # noqa
            ws, why = [], f'{type(e).__name__}: {e}'
        if not ws:
            skipped[c.id] = why or 'no model'
            continue
        clause = ' and '.join(f'({src})' for _, src in c.ensures)
        if '"returns": []' in json.dumps(ws, default=str):
            skipped[c.id] = 'an environment function (Returns) has no recorded result without a symbolic run'
            continue
        for k, w in enumerate(ws):
            path = os.path.join(tmp, f'{c.id}_{k}.json')
            json.dump(dict(property=c.props[0], contract=c.id, target=c.target, obligation='crosscheck/post', kind='post',
                           clause=clause, witness=w, allow_raise=list(c.raises) + list(c.allow_raise),
                           signature=runner._signature(env, c),
                           param_exprs={n: srt.src for n, srt in c.params.items() if isinstance(srt, sorts.Expr)}),
                      open(path, 'w'), default=str)
            jobs.append((c.id, k, path))

    def run(job):
        cid, k, path = job
        try:
            p = subprocess.run([sys.executable, os.path.join(VERIF, 'tools', 'replay.py'), path], capture_output=True, text=True, timeout=120)
            return cid, k, p.returncode, (p.stdout + p.stderr)[-700:], path
        except subprocess.TimeoutExpired:
            return cid, k, 5, 'timeout', path
    agree = disagree = notrun = 0
    bad = []
    with ThreadPoolExecutor(max_workers=12) as ex:
        for cid, k, rc, out, path in ex.map(run, jobs):
            if rc == 0:
                agree += 1
            elif rc == 1:
                disagree += 1
                bad.append((cid, path, out))
            else:
                notrun += 1
                skipped.setdefault(cid, f'replay exit {rc}: {out.strip().splitlines()[-1][:160] if out.strip() else ""}')
    print(f'crosscheck: skipped_because_not_natively_runnable(assumed callee / set-up hook / regex environment)={len(not_native)}')
    print(f'crosscheck: contracts={len(contracts)} sampled_runs={len(jobs)} agree={agree} DISAGREE={disagree} not_replayable={notrun} '
          f'contracts_without_any_run={len([c for c in contracts if c.id in skipped and not any(j[0] == c.id for j in jobs)])}')
    for cid, path, out in bad[:20]:
        print(f'DISAGREE {cid}: proved postcondition is false natively on a sampled input; replay file {path}')
        print('   ', out.strip().replace('\n', '\n    ')[-600:])
    if os.environ.get('CROSSCHECK_VERBOSE'):
        for cid, why in sorted(skipped.items()):
            print(f'skipped {cid}: {why}')
    os.makedirs(os.path.join(VERIF, 'scratch'), exist_ok=True)
    json.dump(dict(contracts=len(contracts), runs=len(jobs), agree=agree, disagree=disagree, not_replayable=notrun,
                   skipped=skipped, disagreements=[(c, o) for c, _, o in bad]),
              open(os.path.join(VERIF, 'scratch', 'crosscheck_last.json'), 'w'), indent=1)
    if not bad:
        import shutil
        shutil.rmtree(tmp, ignore_errors=True)
    sys.exit(3 if bad else 0)


if __name__ == '__main__':
    main()
