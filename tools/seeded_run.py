"""Apply each seeded change to /repo, run the checks of its property (and optionally others), undo.
usage: tools/seeded_run.py [ids...]   (ids like C15_A; default: all)"""
import json, os, subprocess, sys, time
VERIF = os.path.dirname(os.path.dirname(os.path.abspath(__file__)))
S = os.path.join(VERIF, 'seeded')
ids = sys.argv[1:] or sorted(os.listdir(S))
out = {}
for sid in ids:
    d = os.path.join(S, sid)
    patch = os.path.join(d, 'patch.diff')
    if not os.path.exists(patch):
        continue
    prop = sid.split('_')[0]
    st = subprocess.run(['git', '-C', '/repo', 'status', '--porcelain'], capture_output=True, text=True).stdout.strip()
    assert st == '', '/repo not clean: ' + st
    a = subprocess.run(['git', '-C', '/repo', 'apply', patch], capture_output=True, text=True)
    if a.returncode != 0:
        print(f'{sid}: patch does not apply: {a.stderr.strip()[:200]}')
        out[sid] = 'patch-does-not-apply'
        continue
    try:
        props = [prop]
        meta_p = os.path.join(d, 'meta.json')
        if os.path.exists(meta_p):
            props = json.load(open(meta_p)).get('checks', props)
        res = []
        for p in props:
            t = time.time()
            r = subprocess.run([os.path.join(VERIF, 'check'), p], capture_output=True, text=True, cwd=VERIF,
                               env=dict(os.environ, VERIF_EVIDENCE_DIR=os.path.join(VERIF, 'scratch', 'evidence_changed_tree')))
            viol = [l for l in r.stdout.splitlines() if l.startswith('VIOLATION')]
            und = [l for l in r.stdout.splitlines() if l.startswith('UNDECIDED')]
            refuted = [l.strip() for l in r.stdout.splitlines() if 'refuted obligation' in l]
            res.append((p, r.returncode, viol, und, refuted, round(time.time() - t, 1)))
    finally:
        subprocess.run(['git', '-C', '/repo', 'checkout', '--', '.'], check=True)
    for p, rc, viol, und, refuted, dt in res:
        tag = 'DETECTED' if rc == 1 else ('undecided' if rc == 2 else ('MISSED' if rc == 0 else f'rc={rc}'))
        print(f'{sid}: check {p} -> exit {rc} {tag} ({dt}s)')
        for l in refuted[:3]:
            print('    ', l)
        for l in viol[:2]:
            print('    ', l[:200])
        for l in und[:2]:
            print('    ', l[:200])
    out[sid] = [(p, rc, refuted[:3]) for p, rc, viol, und, refuted, dt in res]
os.makedirs(os.path.join(VERIF, 'scratch'), exist_ok=True)
json.dump(out, open(os.path.join(VERIF, 'scratch', 'seeded_last.json'), 'w'), indent=1)
