import argparse
import os
import sys

VERIF = os.path.dirname(os.path.dirname(os.path.abspath(__file__)))
sys.path.insert(0, VERIF)
sys.setrecursionlimit(20000)


def main():
    ap = argparse.ArgumentParser()
    ap.add_argument('prop', nargs='?')
    ap.add_argument('--tier', default=os.environ.get('VERIF_TIER', 'quick'))
    ap.add_argument('--replay')
    ap.add_argument('--only', action='append')
    a = ap.parse_args()
    if a.replay:
        os.execv(sys.executable, [sys.executable, os.path.join(VERIF, 'tools', 'replay.py'), a.replay])
    from pyvc import runner
    import contracts.meta  # noqa: registers per-property metadata
    seed = int(os.environ.get('VERIF_SEED', '0') or 0)
    rc = runner.run_property(a.prop, a.tier if a.tier in ('quick', 'thorough') else 'quick', seed, a.only)
    sys.exit(rc)


main()
