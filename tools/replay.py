"""Replay a counterexample on the REAL code:  tools/replay.py <replay.json>
exit 1 = the real function violates the clause on the witness (confirmed); 0 = clause holds natively;
4 = inputs could not be constructed; 3 = error."""
import ast
import copy
import datetime as _dt
import decimal
import fractions
import importlib
import json
import os
import signal
import sys

VERIF = os.path.dirname(os.path.dirname(os.path.abspath(__file__)))
REPO = os.environ.get('VERIF_REPO', '/repo')
L = os.path.join(REPO, 'Python', 'libraries')
PKGS = ['recognizers-text', 'recognizers-number', 'recognizers-number-with-unit', 'recognizers-date-time',
        'recognizers-sequence', 'recognizers-choice', 'datatypes-timex-expression']


def setup_path():
    for p in reversed(PKGS):
        sys.path.insert(0, os.path.join(L, p))
    sys.path.insert(0, VERIF)
    shims = []
    try:
        import datedelta  # noqa
    except ImportError:
        sys.path.append(os.path.join(VERIF, 'shims'))
        shims.append('datedelta/grapheme shims (assumed semantics, DESIGN 4.6)')
    return shims


def module_of(relpath):
    rel = os.path.relpath(os.path.join(REPO, relpath), L).split(os.sep)
    dotted = '.'.join(rel[1:])[:-3]
    if dotted.endswith('.__init__'):
        dotted = dotted[:-9]
    return importlib.import_module(dotted)


def build(v):
    if isinstance(v, list):
        return [build(x) for x in v]
    if isinstance(v, dict):
        if '__dt__' in v:
            y, m, d, h, mi, s = v['__dt__']
            if v.get('is_date'):
                return _dt.date(y, m, d)
            return _dt.datetime(y, m, d, h, mi, s)
        if '__td__' in v:
            return _dt.timedelta(seconds=build(v['__td__']))
        if '__tuple__' in v:
            return tuple(build(x) for x in v['__tuple__'])
        if '__dict__' in v:
            return {build(k): build(x) for k, x in v['__dict__']}
        if '__real__' in v:
            r = v['__real__']
            if isinstance(r, list):
                return decimal.Decimal(r[0]) / decimal.Decimal(r[1])
            raise ValueError('irrational model value')
        if '__decimal__' in v:
            return decimal.Decimal(v['__decimal__'])
        if '__absent__' in v:
            return ABSENT
        if '__enum__' in v:
            relpath, cname = v['__enum__'].split('::')
            return getattr(getattr(module_of(relpath), cname), v['name'])
        if '__opaque__' in v:
            return object()
        if '__construct__' in v:
            return Deferred(v)
        if '__obj__' in v:
            relpath, cname = v['__obj__'].split('::')
            cls = getattr(module_of(relpath), cname)
            o = object.__new__(cls)
            for k, x in v['fields'].items():
                bx = build(x)
                if bx is ABSENT:
                    continue
                if k.startswith('__') and not k.endswith('__'):
                    # private name: stored under the mangled name of every class of the MRO (the defining class is one of them)
                    o.__dict__[k] = bx
                    for kls in cls.__mro__[:-1]:
                        o.__dict__[f'_{kls.__name__.lstrip("_")}{k}'] = bx
                else:
                    object.__setattr__(o, k, bx)
            return o
        if '__table__' in v:
            return StubTable({build(k): build(x) for k, x in v['__table__']}, v.get('default_present'), build(v.get('default_value')))
        if '__config__' in v:
            return StubConfig(v)
        if '__match__' in v:
            return StubMatch(build(v['string']), build(v['start']), build(v['end']),
                             {k: build(g) for k, g in v['groups'].items()})
        if '__reclist__' in v:
            raise NotConstructible('record list')
        raise NotConstructible(str(list(v)[:3]))
    return v


class NotConstructible(Exception):
    pass


class Deferred:
    """an object the witness asks to be built by the REAL constructor (the constructor is outside the engine's reach);
    keyword arguments given as contract expressions are evaluated natively over the other arguments"""
    def __init__(self, v):
        self.v = v

    def construct(self, envp):
        relpath, cname = self.v['__construct__'].split('::')
        cls = getattr(module_of(relpath), cname)
        kw = {}
        for k, x in self.v['kwargs'].items():
            if isinstance(x, dict) and '__expr__' in x:
                kw[k] = eval(compile(ast.parse(x['__expr__'].strip(), mode='eval'), '<kwarg>', 'eval'), envp)
            else:
                kw[k] = build(x)
        return cls(**kw)


class StubTable(dict):
    """A configuration table realising the solver's interpretation (duck-typed dict)."""
    def __init__(self, d, default_present, default_value):
        super().__init__(d)
        self.default_present, self.default_value = default_present, default_value

    def __contains__(self, k):
        return dict.__contains__(self, k) or (bool(self.default_present) and self.default_value is not None)

    def __missing__(self, k):
        if self.default_present and self.default_value is not None:
            return self.default_value
        raise KeyError(k)

    def get(self, k, d=None):
        if dict.__contains__(self, k):
            return dict.__getitem__(self, k)
        if self.default_present and self.default_value is not None:
            return self.default_value
        return d


class StubConfig:
    """A culture configuration that satisfies exactly the declared environment (tables, values, functions);
    every other attribute is an opaque object."""
    def __init__(self, v):
        self._v = v
        for k, t in v['tables'].items():
            setattr(self, k, build(t))
        for k, x in v['values'].items():
            setattr(self, k, build(x))
        self._v = None
        for k, f in v['funcs'].items():
            setattr(self, k, self._mk(f))

    @staticmethod
    def _mk(f):
        if 'returns' in f:
            vals = [build(x) for x in f['returns']]
            state = {'i': 0}

            def seq(*a, **k):
                i = state['i']
                state['i'] += 1
                if not vals:
                    raise NotConstructible('environment function called but never called symbolically')
                return vals[min(i, len(vals) - 1)]
            return seq
        entries = {tuple(e[:-1]): e[-1] for e in f['entries']}

        def fn(*a):
            return entries.get(tuple(a), f['else'] if f['else'] is not None else 0)
        return fn

    def __getattr__(self, name):
        if name.startswith('_'):
            raise AttributeError(name)
        return StubOpaque(name)


class StubOpaque:
    """An environment value the contract leaves opaque (e.g. a configured regex whose matches are environment values):
    the real code cannot use it, so a run that touches it is not a replay of the counterexample."""
    def __init__(self, name):
        object.__setattr__(self, '_name', name)

    def __getattr__(self, name):
        raise NotConstructible(f'opaque environment value {object.__getattribute__(self, "_name")} used ({name})')


class StubMatch:
    """A regex match stub satisfying R1 (geometry) with the named groups of the counterexample."""
    def __init__(self, string, start, end, groups):
        self.string, self._s, self._e, self._g = string, start, end, groups

    def start(self, *a):
        return self._s

    def end(self, *a):
        return self._e

    def span(self):
        return (self._s, self._e)

    def group(self, *names):
        def one(n):
            if n == 0:
                return self.string[self._s:self._e]
            return self._g.get(n)
        if not names:
            return one(0)
        if len(names) == 1:
            return one(names[0])
        return tuple(one(n) for n in names)

    def groupdict(self):
        return dict(self._g)


class _Absent:
    pass


ABSENT = _Absent()


class OldRewriter(ast.NodeTransformer):
    def visit_Call(self, node):
        self.generic_visit(node)
        if isinstance(node.func, ast.Name) and node.func.id == 'old' and len(node.args) == 1:
            return ast.Call(func=ast.Name(id='__old_eval__', ctx=ast.Load()),
                            args=[ast.Constant(ast.unparse(node.args[0]))], keywords=[])
        return node


def spec_env():
    env = {}
    d = os.path.join(VERIF, 'specs')
    for fn in sorted(os.listdir(d)):
        if fn.endswith('.py') and fn not in ('__init__.py', 'native.py'):
            m = importlib.import_module('specs.' + fn[:-3])
            env.update({k: v for k, v in vars(m).items() if not k.startswith('_')})
    import specs.native as nat
    natives = {k: v for k, v in vars(nat).items() if not k.startswith('_')}
    env.update(natives)
    # spec functions call each other and the natives by bare name (one namespace for the symbolic interpreter):
    # give every spec module the same view
    for fn in sorted(os.listdir(d)):
        if fn.endswith('.py') and fn not in ('__init__.py', 'native.py'):
            m = sys.modules.get('specs.' + fn[:-3])
            for k, v in env.items():
                if not hasattr(m, k):
                    setattr(m, k, v)
    return env


def eval_clause(src, env, old_env):
    tree = ast.parse(src.strip(), mode='eval')
    tree = ast.fix_missing_locations(OldRewriter().visit(tree))
    env = dict(env)
    env['__old_eval__'] = lambda s: eval(s, dict(old_env))
    return eval(compile(tree, '<clause>', 'eval'), env)


def main():
    path = sys.argv[1]
    d = json.load(open(path))
    shims = setup_path()
    if shims:
        print('replay uses:', '; '.join(shims))
    if d.get('witness') is None:
        print('no witness in the replay file:', d.get('witness_error'))
        sys.exit(4)
    relpath, qual = d['target'].split('::')
    try:
        mod = module_of(relpath)
        parts = qual.split('.')
        obj = mod
        for p in parts:
            if p.startswith('__') and not p.endswith('__') and isinstance(obj, type):
                p = f'_{obj.__name__}{p}'
            obj = getattr(obj, p)
        fn = obj
        args = {k: build(v) for k, v in d['witness'].items()}
    except NotConstructible as e:
        print('inputs not constructible:', e)
        sys.exit(4)
    except Exception as e:
        print('replay set-up error:', type(e).__name__, e)
        sys.exit(4)
    # ghost parameters of the contract (not in the real signature) are kept for the clause but not passed
    import inspect
    if d.get('signature'):
        sig_names = set(d['signature'])      # from the AST of the real function (decorators hide it from inspect)
    else:
        try:
            sig_names = set(inspect.signature(fn).parameters)
        except (TypeError, ValueError):
            sig_names = set(args)
    ghost = {k: v for k, v in args.items() if k not in sig_names and k != 'self'}
    args = {k: v for k, v in args.items() if k in sig_names or k == 'self'}
    # derived parameters (contract expressions over the other parameters): recomputed natively when the file says how,
    # because the model's value of an uninterpreted function (str(Decimal), lower, ...) is not the real one
    for name, src in (d.get('param_exprs') or {}).items():
        try:
            envp = spec_env()
            envp.update(ghost)
            envp.update(args)
            val = eval(compile(ast.parse(src.strip(), mode='eval'), '<param>', 'eval'), envp)
        except Exception:
            continue
        if name in args:
            args[name] = val
        elif name in ghost:
            ghost[name] = val
    for name in list(args):
        if isinstance(args[name], Deferred):
            envp = spec_env()
            envp.update(ghost)
            envp.update({k: v for k, v in args.items() if not isinstance(v, Deferred)})
            args[name] = args[name].construct(envp)
    old_args = copy.deepcopy({**args, **ghost})
    print('calling', d['target'], 'with', {k: repr(v)[:120] for k, v in args.items()})

    def on_alarm(*_):
        raise TimeoutError('time box exceeded')
    signal.signal(signal.SIGALRM, on_alarm)
    signal.alarm(int(os.environ.get('REPLAY_TIMEBOX', '10')))
    kind = d['kind']
    exc = None
    result = None
    try:
        if 'self' in args and len(parts) == 2:
            s = args.pop('self')
            attr = parts[1] if not parts[1].startswith('__') or parts[1].endswith('__') else f'_{parts[0]}{parts[1]}'
            if type(s) is object:
                # an opaque self: the method is taken from the class; a run that touches the opaque object is no replay
                try:
                    result = getattr(getattr(mod, parts[0]), attr)(s, **args)
                except AttributeError as e:
                    if "'object' object has no attribute" in str(e):
                        raise NotConstructible(f'opaque self used ({e})')
                    raise
            elif isinstance(getattr(type(s), attr, None), property):
                result = getattr(s, attr)            # a property getter under contract
            else:
                result = getattr(s, attr)(**args)
            args['self'] = s
        else:
            result = fn(**args)
    except TimeoutError as e:
        exc = e
    except NotConstructible as e:
        signal.alarm(0)
        print('not replayable at function level:', e)
        sys.exit(4)
    except TypeError as e:
        if 'first argument must be a string or compiled pattern' in str(e) or 'StubOpaque' in str(e):
            signal.alarm(0)
            print('not replayable at function level: an opaque environment pattern reached the regex engine:', e)
            sys.exit(4)
        exc = e
    except Exception as e:
        exc = e
    signal.alarm(0)
    if kind == 'raises':
        want = d['obligation'].split('raises:')[-1]
        if exc is not None and (type(exc).__name__ == want or any(b.__name__ == want for b in type(exc).__mro__)):
            clause = d.get('clause')
            print(f'real function raised {type(exc).__name__}: {exc} — not permitted by the contract')
            sys.exit(1)
        print('real function did not raise', want, '(result', repr(result)[:200], ')')
        sys.exit(0)
    if kind == 'decreases':
        if isinstance(exc, TimeoutError):
            print('real function did not return within the time box: termination obligation violated')
            sys.exit(1)
        print('real function returned; the loop-level counterexample is not a function-level input')
        sys.exit(4)
    if kind != 'post':
        print(f'obligation kind {kind}: the witness is a loop/call-site state, not a function input')
        sys.exit(4)
    if exc is not None:
        allowed = d.get('allow_raise') or []
        if any(type(exc).__name__ == a or any(b.__name__ == a for b in type(exc).__mro__) for a in allowed):
            print(f'real function raised {type(exc).__name__}, which the contract permits for some inputs: not a postcondition run')
            sys.exit(4)
        print(f'real function raised {type(exc).__name__}: {exc}')
        sys.exit(1 if not isinstance(exc, TimeoutError) else 1)
    try:
        print('result =', repr(result)[:300])
    except Exception as e:      # a __repr__ that does not like stubbed fields
        print('result = <unprintable:', type(e).__name__, '>')
    env = spec_env()
    env.update(ghost)
    env.update(args)
    env['__return__' if 'result' in args else 'result'] = result
    old_env = spec_env()
    old_env.update(old_args)
    try:
        ok = eval_clause(d['clause'], env, old_env)
    except Exception as e:
        print('clause evaluation error:', type(e).__name__, e)
        sys.exit(3)
    print('clause:', d['clause'])
    print('holds natively:', bool(ok))
    sys.exit(0 if ok else 1)


main()
