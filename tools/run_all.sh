#!/bin/sh
# runs every registered quick check (sequentially) and prints one line per property
cd "$(dirname "$0")/.."
for p in $(.venv/bin/python -c "import json;print(' '.join(c['property_id'] for c in json.load(open('MANIFEST.json'))['checks']))") "$@"; do
  s=$(date +%s); out=$(timeout 1500 ./check $p 2>&1); rc=$?; e=$(date +%s)
  echo "$p exit=$rc $((e-s))s $(echo "$out" | grep -c '^KNOWN-FINDING') known  $(echo "$out" | grep '^C[0-9]*:' | tail -1)"
  [ $rc -ne 0 ] && echo "$out" | grep "VIOLATION\|UNDECIDED\|CRASH" | head -5
done
