"""Re-confirms every kept seeded change on a scratch worktree of /repo's HEAD and writes seeded/<id>/meta.json:
  1. the demonstration passes on the unchanged tree,
  2. the patch applies, the demonstration then fails,
  3. the pinned test suite still passes with the patch (204 tests),
  4. (optionally, --checks) which registered check reports it (tools/seeded_run.py results in scratch/seeded_last.json).
Worktrees live under /tmp and are removed afterwards.  usage: seed_confirm.py [ids...]"""
import json
import os
import re
import shutil
import subprocess
import sys

VERIF = os.path.dirname(os.path.dirname(os.path.abspath(__file__)))
S = os.path.join(VERIF, 'seeded')
PKGS = ['recognizers-text', 'recognizers-number', 'recognizers-number-with-unit', 'recognizers-date-time', 'recognizers-sequence',
        'recognizers-choice', 'datatypes-timex-expression']

NEEDS = {
 'C01_A': 'a query containing a code point whose casefold() is longer than one character (U+00DF, U+FB01, U+0130) before a number; any recogniser that goes through QueryProcessor.preprocess',
 'C01_B': 'a date-time entity preceded by a modifier word (before/after/since/until) with other text between the start of the prefix and the modifier, so that the merged span starts at the wrong offset',
 'C02_A': 'two threads (or a nested parse) inside @precision-decorated number parsers at the same time: the module-level depth counter makes an inner/parallel call skip the decimal context set-up',
 'C02_B': 'two calls of a recognize_* date-time function with the same culture but different options (or reference-dependent lazy state): the recogniser built for the first call is reused',
 'C03_A': 'a digit literal with a decimal separator in a culture that is NOT a non-standard separator variant: the separator swap is now applied unconditionally by the re-indented block',
 'C03_B': 'a negative CJK number whose sign is a full-width or multi-character term: the sign is looked up after full-to-half conversion and no longer stripped',
 'C04_A': 'an English numeral with at least two round words where a smaller round word stands left of a bigger one in scan order (e.g. "two hundred thousand three hundred"): the backward scan stops instead of skipping',
 'C04_B': 'a Chinese/Japanese numeral with a direct round unit (e.g. 亿, 万亿) followed by further groups: the test uses the numeric value instead of the character',
 'C05_A': 'a compound currency amount whose fraction part does not round to two decimals in the main unit (fraction ratios other than 100, or three-digit fractions)',
 'C05_B': 'a unit expression for which the longest suffix match is not the first candidate: the loop no longer stops at the first (longest) match',
 'C06_A': 'a date on 29 February of a year divisible by 400 (2000, 2400): the hand-written leap rule omits the 400 case',
 'C06_B': 'several date-time candidates of which only some overlap an ambiguous-term match: the filter keeps or drops all candidates together because it tests the outer variable',
 'C07_A': 'a date + time expression with a non-zero second resolved to a past value: the second is dropped from the past datetime',
 'C07_B': 'a 12 o\'clock time with a pm-style descriptor ("12 pm", "12 in the afternoon"): to_pm(12) gives 12 instead of 0/12 handling of the original',
 'C08_A': '"this/next/last week" style references where the begin date and the Thursday of that week fall in different ISO years (weeks around 1 January)',
 'C08_B': 'weekday arithmetic (this/next/last <weekday>) from a Sunday reference: isoweekday 7 is folded to 0',
 'C09_A': 'a year-less date whose candidate in the reference year lies after the reference: the past candidate is no longer moved back a year on that path',
 'C09_B': 'a fully specified date (explicit year) together with a reference whose time of day is not midnight: future/past values keep or lose the time part differently from the original',
 'C10_A': 'a time span of whole days with zero hours/minutes/seconds (e.g. exactly 2 days): the P..D form is skipped',
 'C10_B': 'a duration with a count above 1000 in years, months or weeks ("1500 weeks"): nothing is returned',
 'C11_A': 'to_pm applied to hour 12 (noon/midnight wording): yields 24, outside 00..23',
 'C11_B': 'a date-time value equal to the minimum-date marker with a time part (0001-01-01 00:00:00 vs 0001-01-01): invalid values are no longer filtered by prefix',
 'C12_A': 'two date-time candidates starting at the same offset during the ambiguity/merge step: next_er selects the entity itself (>=), producing overlapping or duplicated spans',
 'C12_B': 'three or more unit candidates where an early pair conflicts and the last pair does not: have_conflict is overwritten by the last comparison and overlapping entities survive',
 'C13_A': 'a sequence entity (IP, GUID, ...) that starts at offset 0: source[start - 1] now reads the last character of the query (index -1) and can suppress the match',
 'C13_B': 'an IPv4 address with an all-zero octet written with several zeros ("00", "000") in the non-final position, or a final octet "0": the two branches are no longer symmetric',
 'C14_A': 'a TIMEX time with minute == 0 and second != 0 (T10:00:30): the zero minute is dropped and the string re-parses differently',
 'C14_B': 'Timex.from_date / from_date_time for years below 1000: strftime("%Y") is not zero padded on this platform',
 'C15_A': 'a year-month TIMEX for December (XXXX-12 / 2020-12): the end of the range becomes month 1 of year + 1 only when month // 12 ... (month + 1) % 12 gives 1, i.e. November yields month 0',
 'C15_B': 'dates_matching_day on a range whose start is itself the requested weekday, or whose end is not aligned: date_of_next_day skips the start day',
 'C16_A': 'a single-word alphanumeric input containing CJK characters or a mix that the scanner would split into several tokens (e.g. "中文"): returned as one token',
 'C16_B': 'the same phrase inserted twice with different ids (two units sharing a spelling): the second id is not registered',
 'C17_A': 'a request for an unsupported culture with fallback: the en-us model is cached under the requested culture key, so later requests with fallback disabled return it instead of raising',
 'C17_B': 'culture codes in upper/mixed case ("EN-US"): lower-casing moved inside a branch, so the exact-match lookup fails and routing differs',
 'C20_A': 'an emoji alternative (ok hand, thumbs down, splayed hand) as the answer: emoji are separators for the token pattern and are never tokenised, so their score is 0 and nothing is returned',
 'C20_B': 'a query containing two or more yes/no expressions: only_top_match becomes the options value (0 = falsy) and every match is returned instead of exactly one',
}


def run(cmd, **kw):
    return subprocess.run(cmd, capture_output=True, text=True, **kw)


def main():
    ids = sys.argv[1:] or sorted(d for d in os.listdir(S) if os.path.exists(os.path.join(S, d, 'patch.diff')))
    last = {}
    lp = os.path.join(VERIF, 'scratch', 'seeded_all.json')
    if os.path.exists(lp):
        last = json.load(open(lp))
    head = run(['git', '-C', '/repo', 'rev-parse', '--short', 'HEAD']).stdout.strip()
    for sid in ids:
        prop = sid.split('_')[0]
        wt, demo = f'/tmp/seed_{prop}', f'/tmp/seed_{prop}_demo'
        for p in (wt, demo):
            if os.path.exists(p):
                run(['git', '-C', '/repo', 'worktree', 'remove', '--force', p])
                shutil.rmtree(p, ignore_errors=True)
        r = run(['git', '-C', '/repo', 'worktree', 'add', '--detach', wt, 'HEAD'])
        assert r.returncode == 0, r.stderr
        try:
            shutil.copytree(os.path.join(S, sid), demo)
            libs = os.path.join(wt, 'Python', 'libraries')
            env = dict(os.environ, SEED_ROOT=wt, PYTHONWARNINGS='ignore',
                       PYTHONPATH=':'.join([demo] + [os.path.join(libs, p) for p in PKGS] + [os.path.join(VERIF, 'shims')]))

            def demo_run():
                p = run(['/venv/bin/python', os.path.join(demo, 'demo.py')], env=env, cwd=demo, timeout=1800)
                return p.returncode, (p.stdout + p.stderr).strip().splitlines()[-3:]
            clean_rc, clean_tail = demo_run()
            a = run(['git', '-C', wt, 'apply', os.path.join(S, sid, 'patch.diff')])
            applies = a.returncode == 0
            pat_rc, pat_tail, tests = None, [], None
            if applies:
                pat_rc, pat_tail = demo_run()
                t = run(['/venv/bin/python', '-m', 'pytest', '-q', '-p', 'no:cacheprovider', '--timeout=900',
                         '--continue-on-collection-errors'], cwd=wt, timeout=1800)
                m = re.search(r'(\d+) passed', t.stdout)
                tests = int(m.group(1)) if m else 0
            files = re.findall(r'^\+\+\+ b/(.*)$', open(os.path.join(S, sid, 'patch.diff')).read(), re.M)
            det = last.get(sid)
            needs = NEEDS.get(sid, '')
            note_p = os.path.join(S, sid, 'NOTE.txt')
            if not needs and os.path.exists(note_p):
                needs = ' '.join(open(note_p).read().split())      # the author's note: what the change is and when it manifests
            meta = dict(id=sid, property=prop, base_commit=head, files=files, needs=needs,
                        confirmed=dict(demo_on_unchanged_tree=dict(exit=clean_rc, tail=clean_tail),
                                       patch_applies=applies,
                                       demo_on_patched_tree=dict(exit=pat_rc, tail=[l[:300] for l in pat_tail]),
                                       pinned_tests_passed_with_patch=tests,
                                       how='tools/seed_confirm.py: scratch worktree of /repo HEAD under /tmp, demo run before and after '
                                           '`git apply patch.diff`, then the pinned pytest command in the worktree; worktree removed'),
                        checks=[prop],
                        detection=det if det is not None else 'see DESIGN.md section 9')
            ok = clean_rc == 0 and applies and pat_rc not in (0, None) and tests == 204
            meta['confirmed']['all_confirmed'] = ok
            json.dump(meta, open(os.path.join(S, sid, 'meta.json'), 'w'), indent=1, ensure_ascii=False)
            print(f'{sid}: clean={clean_rc} applies={applies} patched={pat_rc} tests={tests} {"OK" if ok else "NOT-CONFIRMED"}', flush=True)
        finally:
            run(['git', '-C', '/repo', 'worktree', 'remove', '--force', wt])
            shutil.rmtree(wt, ignore_errors=True)
            shutil.rmtree(demo, ignore_errors=True)
    run(['git', '-C', '/repo', 'worktree', 'prune'])


if __name__ == '__main__':
    main()
