"""Behaviour-preserving refactorings (harmless/<property>/H*.diff, written by fresh sub-agents from the property text alone):
apply each to /repo, run the property's check, undo.  Expected: exit 0.  exit 1 would be a FALSE ALARM; exit 2/3 is
brittleness of the proof (undecided / engine limit), recorded in DESIGN.md.
usage: tools/harmless_run.py [property ids ...]"""
import json
import os
import subprocess
import sys
import time

VERIF = os.path.dirname(os.path.dirname(os.path.abspath(__file__)))
H = os.path.join(VERIF, 'harmless')
props = sys.argv[1:] or sorted(os.listdir(H))
out = {}
for pid in props:
    d = os.path.join(H, pid)
    if not os.path.isdir(d):
        continue
    for fn in sorted(os.listdir(d)):
        if not fn.endswith('.diff'):
            continue
        patch = os.path.join(d, fn)
        st = subprocess.run(['git', '-C', '/repo', 'status', '--porcelain'], capture_output=True, text=True).stdout.strip()
        assert st == '', '/repo not clean: ' + st
        a = subprocess.run(['git', '-C', '/repo', 'apply', patch], capture_output=True, text=True)
        key = f'{pid}/{fn}'
        if a.returncode != 0:
            print(f'{key}: patch does not apply: {a.stderr.strip()[:200]}')
            out[key] = 'patch-does-not-apply'
            continue
        try:
            t = time.time()
            r = subprocess.run([os.path.join(VERIF, 'check'), pid], capture_output=True, text=True, cwd=VERIF,
                               env=dict(os.environ, VERIF_EVIDENCE_DIR=os.path.join(VERIF, 'scratch', 'evidence_changed_tree')))
            dt = round(time.time() - t, 1)
        finally:
            subprocess.run(['git', '-C', '/repo', 'checkout', '--', '.'], check=True)
        lines = [l for l in r.stdout.splitlines() if l.startswith(('VIOLATION', 'UNDECIDED', 'CRASH'))]
        tag = {0: 'ok', 1: 'FALSE-ALARM', 2: 'undecided', 3: 'crash'}.get(r.returncode, f'rc={r.returncode}')
        print(f'{key}: check {pid} -> exit {r.returncode} {tag} ({dt}s)', flush=True)
        for l in lines[:3]:
            print('    ', l[:220])
        out[key] = dict(exit=r.returncode, verdict=tag, lines=lines[:5])
os.makedirs(os.path.join(VERIF, 'scratch'), exist_ok=True)
json.dump(out, open(os.path.join(VERIF, 'scratch', 'harmless_last.json'), 'w'), indent=1)
