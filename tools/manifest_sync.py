"""Regenerates MANIFEST.json from the table below; every property without a check is listed under not_applicable."""
import json
CLAIMS = {
 'C01': ('proof', 'the span glue under contract: query normalisation preserves the length (preprocess, lower_keep_length, to_lower_term_sensitive, apply_reverse); the matched[] sweep of the number extractor yields spans inside the query whose text is the stripped slice, for arbitrary regex matches; merge_all_tokens yields the slices of its tokens; modifier merging keeps spans inside the query; models report end = start + length - 1', 'regex matches are environment values (R1 geometry, R2 end anchor checked syntactically per culture); sweeps of the percentage / sequence / unit extractors, the sub-extractors token arithmetic and BaseMergedParser modifier handling are not under contract'),
 'C02': ('proof', 'frame obligations over every function of the seven packages (about 7000): no write to state that outlives a call outside construction (F1), parameter mutation only on call-local objects (F2), no ambient reads and the decimal context established at every number-parser entry (F3), no dynamic features (FX); plus the ModelFactory cache contracts (cached vs fresh model, C17). The step from frames to histories and schedules (no persistent writes => every result is a function of the arguments and of immutable models => order, cache warmth and thread are irrelevant and concurrent readers cannot race) is a pen-and-paper lemma', 'the frame analysis is syntactic with name-based call resolution; results of calls are treated as fresh; C-level state inside the regex module assumed transparent; no interleaving is executed'),
 'C06': ('proof', 'contracts on the glue from regex groups to TIMEX/value for absolute dates (match_to_date, generate_dates, safe_create_*, is_valid_date, format_date, luis_date): with an explicit 4-digit year the TIMEX and both values are that date and do not depend on the reference', 'which layouts the date regexes accept and which group receives which substring (regex layer) is assumed; culture tables month_of_year/day_of_month abstracted to their ranges'),
 'C07': ('proof', 'contracts on match_to_time (24h and 12h+am/pm incl. hour 0), to_pm (second reading twelve hours later), merge_date_and_time (date + time composition), time formatters', 'time regexes and am/pm descriptor regexes are environment values; prefix/suffix adjusters absent; sub-parsers in merge_date_and_time abstracted by their contracts'),
 'C08': ('proof', 'contracts on DateUtils.this/next/last (requested ISO weekday in the current/following/preceding ISO week, time kept) and AgoLaterUtil.get_date_result (R +- N days/weeks/hours/minutes/seconds)', 'month/year arithmetic depends on the missing datedelta package and is not claimed; phrase classification by regex assumed'),
 'C09': ('proof', 'generate_dates and match_to_date for year-less dates: future = earliest occurrence on or after the reference date, past = latest strictly before, incl. 29 February (years 1950..2090); known finding KF-C09-* for a non-midnight reference on the day itself', 'regex layer assumed; see known_findings.json'),
 'C10': ('proof', 'luis_time_span denotes exactly end - begin; period unit counts and (start,end,P<n>D) triples', 'float N as real; regexes assumed'),
 'C11': ('proof', 'the validity / formatting guard layer every value passes through: is_valid_date == calendar validity, safe_create_* yield a valid datetime or the min-value marker, formatters produce well-formed YYYY-MM-DD / HH:MM:SS, to_pm stays within 00..23', 'value construction sites in base_*period.py are not individually under contract'),
 'C12': ('proof', 'the two disjointness mechanisms the property names: the matched[] sweep of the number extractor (pairwise disjoint, sorted) incl. the sign-term widening, and merge_all_tokens (pairwise disjoint, sorted, for arbitrary token lists); the ambiguity filter never removes an untouched entity; ExtractResult.overlap is interval intersection', 'sign widening under R2 + H_sign (sign term does not overlap number matches); disjointness of date-time and unit models beyond merge_all_tokens rests on which candidates the regexes produce and on add_to/add_mod/_select_candidates, which are not under contract'),
 'C14': ('proof', 'per grammar alternative of the TIMEX datatype: the canonical string built from in-range fields parses (real TimexParsing/TimexRegex code, patterns matched by a structural regex model) to exactly those fields and formats back to the identical string; non-canonical accepted spellings re-parse to the same fields and formatting is idempotent; from_date / from_date_time / from_time give the canonical TIMEX', 're.match for the anchored TimexRegex patterns is modelled by pyvc/rxstruct.py over structured strings (validated against the real engine); str(Decimal) uninterpreted+injective and assumed amount-shaped; (start,end,duration) range strings not covered; known findings KF-C14-1/2'),
 'C15': ('proof', 'pre/postconditions on the real TimexResolver / TimexRangeResolver / TimexDateHelpers / TimexValue / TimexHelpers / TimexConstraintsHelper functions incl. loop invariant + termination for dates_matching_day and collapse for up to 3 ranges', 'Decimal as real; TIMEX string parsing (TimexRegex) outside these contracts; collapse/inner_collapse for list length <= 3 (the property quantifies over 1-3 constraints)'),
 'C17': ('proof', 'map_to_nearest_language proved over a case split of all culture strings (supported codes in every letter case: closed; each listed language with an arbitrary region; every proper prefix of a language; any other language word) and the ModelFactory cache contracts (a request never returns a model built for another key, cached entries are never re-bound, fallback only to en-us, ValueError exactly when nothing resolves)', 'str.lower/strip modelled as identity on lower-case ASCII words; culture strings of the form word or word-word; the cache modelled with two arbitrary pre-existing entries and two constructors; Recognizer.get_model composition (target culture default) by inspection; uniqueness of (type, culture) registrations across recognisers not checked here'),
}
FIXED_NA = {'C18': "equality of two concrete artefacts decided only by running the generator (ruamel.yaml absent); not a contract over a function's inputs (DESIGN section 8)",
            'C19': 'finite example table decided by executing regex engines: testing, not a contract (DESIGN section 8)'}
m = json.load(open('MANIFEST.json'))
checks = []
for pid, (cat, text, note) in sorted(CLAIMS.items()):
    checks.append({
        'property_id': pid, 'quick_cmd': f'./check {pid} --tier quick', 'thorough_cmd': f'./check {pid} --tier thorough',
        'evidence_file': f'evidence/{pid}.json', 'replay_cmd_template': './check --replay {path}', 'engine': 'pyvc',
        'level_claimed': {'category': cat, 'text': text, 'design_ref': f'DESIGN.md section 7 {pid}'},
        'level_note': 'trusted: the pyvc VC generator and its library models (datetime as ordinal+seconds, str/int conversions via SMT-LIB str.from_int/to_int), z3/cvc5; ' + note,
        'technique': 'contract-based deductive verification: sidecar contracts, VCs generated from the real AST on every run, discharged by z3/cvc5'})
m['checks'] = checks
claimed = set(CLAIMS)
na = []
for l in open('properties.jsonl'):
    pid = json.loads(l)['id']
    if pid not in claimed:
        na.append({'property_id': pid, 'reason': FIXED_NA.get(pid, 'no check registered yet: contracts for this property are still under construction (not a claim that the technique cannot apply)')})
m['not_applicable'] = na
for e in m.get('engines', []):
    if e['name'] == 'pyvc':
        e['serves_properties'] = sorted(claimed)
json.dump(m, open('MANIFEST.json', 'w'), indent=1)
print('claimed', sorted(claimed))
