"""Keeps MANIFEST.json's not_applicable list current: every property that has no check is listed with a reason."""
import json, sys
m = json.load(open('MANIFEST.json'))
claimed = {c['property_id'] for c in m['checks']}
fixed = {'C18': "equality of two concrete artefacts decided only by running the generator (ruamel.yaml absent); not a contract over a function's inputs (DESIGN section 8)",
         'C19': 'finite example table decided by executing regex engines: testing, not a contract (DESIGN section 8)'}
na = []
for l in open('properties.jsonl'):
    pid = json.loads(l)['id']
    if pid in claimed:
        continue
    na.append({'property_id': pid, 'reason': fixed.get(pid, 'no check registered yet: contracts for this property are still under construction (not a claim that the technique cannot apply)')})
m['not_applicable'] = na
for e in m.get('engines', []):
    if e['name'] == 'pyvc':
        e['serves_properties'] = sorted(claimed)
json.dump(m, open('MANIFEST.json', 'w'), indent=1)
print('claimed', sorted(claimed))
