"""Writes the outcome of the last tools/seeded_run.py run (scratch/seeded_last.json) into seeded/<id>/meta.json ('detection') and
regenerates the seeded-change table of DESIGN.md (between the table header and the next blank line).
usage: seeded_meta.py [--table]"""
import json
import os
import re
import sys

VERIF = os.path.dirname(os.path.dirname(os.path.abspath(__file__)))
S = os.path.join(VERIF, 'seeded')
last = json.load(open(os.path.join(VERIF, 'scratch', 'seeded_last.json')))
for sid, res in last.items():
    mp = os.path.join(S, sid, 'meta.json')
    if not os.path.exists(mp) or not isinstance(res, list):
        continue
    meta = json.load(open(mp))
    best = next((r for r in res if r[1] == 1), res[0])
    verdict = {0: 'missed', 1: 'detected', 2: 'undecided'}.get(best[1], f'exit {best[1]}')
    meta['detection'] = dict(check=best[0], exit=best[1], verdict=verdict,
                             refuted_obligations=[x.replace('refuted obligation: ', '') for x in best[2]],
                             all_checks=[dict(check=r[0], exit=r[1]) for r in res],
                             how='tools/seeded_run.py: patch applied to /repo, the listed checks run, patch undone')
    json.dump(meta, open(mp, 'w'), indent=1, ensure_ascii=False)
if '--table' in sys.argv:
    rows = []
    counts = {}
    for sid in sorted(os.listdir(S)):
        mp = os.path.join(S, sid, 'meta.json')
        if not os.path.exists(mp):
            continue
        m = json.load(open(mp))
        d = m.get('detection')
        if not isinstance(d, dict):
            continue
        counts[d['verdict']] = counts.get(d['verdict'], 0) + 1
        ob = d['refuted_obligations'][0] if d['refuted_obligations'] else ''
        ob = re.sub(r'\s*\(engine limit.*$', '', ob)
        rows.append(f"| {sid} | {os.path.basename(m['files'][0]) if m.get('files') else ''} | {d['verdict']}"
                    f"{'' if d['check'] == m['property'] else ' (by the ' + d['check'] + ' check)'} | `{ob[:100]}` |")
    p = os.path.join(VERIF, 'DESIGN.md')
    s = open(p).read()
    head = '| seed | touches | result | first refuted obligation |\n|---|---|---|---|\n'
    i = s.index(head) + len(head)
    j = s.index('\n\n', i)
    s = s[:i] + '\n'.join(rows) + s[j:]
    open(p, 'w').write(s)
    print(len(rows), 'rows', counts)
