"""Effect (frame) checker for C02 (DESIGN §5.1): syntactic frame obligations over the six packages.

F1  no function outside construction (``__init__``, property setters, the allow-list below) writes state that
    outlives the call: self.x / cls.x / Class.x / module globals, by assignment, deletion or a mutator call.
F2  a function that writes fields of a *parameter* is never handed a persistent (self/global-rooted) object.
F3  no ambient reads: clock, randomness, environment, locale; the decimal context is established at every number
    parser entry point.
FX  no dynamic features that defeat a syntactic frame analysis (exec/eval/globals()/__dict__/setattr on persistent roots).
"""
import ast
import os

REPO = os.environ.get('VERIF_REPO', '/repo')
LIBS = os.path.join(REPO, 'Python', 'libraries')
PACKAGES = ['recognizers-text/recognizers_text', 'recognizers-number/recognizers_number',
            'recognizers-number-with-unit/recognizers_number_with_unit', 'recognizers-date-time/recognizers_date_time',
            'recognizers-sequence/recognizers_sequence', 'recognizers-choice/recognizers_choice',
            'datatypes-timex-expression/datatypes_timex_expression']
MUTATORS = {'append', 'extend', 'insert', 'pop', 'remove', 'clear', 'update', 'setdefault', 'add', 'discard', 'sort',
            'reverse', 'popitem', '__setitem__', '__delitem__'}

# construction-time writers, each with the reason it is admissible
ALLOW_F1 = {
    'recognizers_text/model.py::ModelFactory.register_model_in_cache':
        'the process-wide model cache: extended only, governed by the C17 contracts (consistent, never re-bound)',
    'recognizers_text/model.py::ModelFactory.register_model': 'registration of constructors during Recognizer.__init__',
    'recognizers_text/matcher/node.py::Node.__setitem__': 'trie construction (StringMatcher.init)',
    'recognizers_text/matcher/node.py::Node.add_value': 'trie construction (StringMatcher.init)',
    'recognizers_text/matcher/aa_node.py::AaNode.__setitem__': 'automaton construction',
    'recognizers_text/matcher/aa_node.py::AaNode.add_value': 'automaton construction',
    'recognizers_text/matcher/string_matcher.py::StringMatcher.init': 'matcher construction',
    'recognizers_text/matcher/abstract_matcher.py::AbstractMatcher.batch_insert': 'matcher construction',
    'recognizers_text/matcher/trie_tree.py::TrieTree.insert': 'trie construction',
    'recognizers_text/matcher/ac_automaton.py::AcAutomaton.insert': 'automaton construction',
    'recognizers_text/matcher/ac_automaton.py::AcAutomaton.batch_insert': 'automaton construction',
    'recognizers_text/matcher/ac_automaton.py::AcAutomaton.init': 'automaton construction',
    'datatypes_timex_expression/timex.py::Timex.assign_properties':
        'called only from TimexParsing.parse_string during Timex.__init__ of the object being built',
    'datatypes_timex_expression/timex.py::Timex.assign_date_duration': 'same (via assign_properties)',
    'datatypes_timex_expression/timex.py::Timex.assign_time_duration': 'same (via assign_properties)',
}
# ambient reads reviewed by hand: the value read cannot reach the result
REVIEWED_F3 = {
    ('recognizers_date_time/date_time/base_set.py::BaseSetParser.parse_each_duration', 'datetime.now'):
        'now() is handed to duration_parser.parse as the reference, and only pr.timex_str is read, which does not depend on the reference',
    ('recognizers_date_time/date_time/base_set.py::BaseSetParser.parser_time_everyday', 'datetime.now'):
        'now() is handed to time_parser.parse as the reference, and only pr.timex_str is read (C07: the time TIMEX does not depend on the reference)',
    ('recognizers_date_time/date_time/utilities.py::TimexUtil.generate_date_period_timex', 'datetime.now'):
        'compared for equality with the two import-time default stamps only; the comparison can be true only if both defaults were '
        'taken in the same microsecond as the call, i.e. never after import',
    ('recognizers_date_time/date_time/utilities.py::TimexUtil.generate_date_period_timex', 'default argument datetime.now() evaluated at import'):
        'same: default stamps are only compared with each other and with now()',
}
# ambient reads that are part of the documented interface
ALLOW_F3 = {
    'reference-default': 'datetime.now() only as the default when the caller passes reference=None (the property fixes the reference)',
}


class Summary:
    def __init__(self, ident, node, cls, is_init, is_setter, decorators):
        self.ident, self.node, self.cls = ident, node, cls
        self.is_init, self.is_setter, self.decorators = is_init, is_setter, decorators
        self.name = node.name
        self.params = [a.arg for a in node.args.posonlyargs + node.args.args]
        self.f1 = []            # (line, what)
        self.param_writes = {}  # param -> [(line, what)]
        self.param_pass = []    # (param, callee name, arg index, line): param handed on to another function
        self.persist_pass = []  # (root, callee name, arg index, line)
        self.ambient = []       # (line, what, allowed_reason or None)
        self.dynamic = []


def _decorators(node):
    out = []
    for d in node.decorator_list:
        if isinstance(d, ast.Name):
            out.append(d.id)
        elif isinstance(d, ast.Attribute):
            out.append(d.attr)
        elif isinstance(d, ast.Call):
            f = d.func
            out.append(f.id if isinstance(f, ast.Name) else getattr(f, 'attr', '?'))
    return out


class ModuleScan:
    def __init__(self, path):
        self.path = path
        self.rel = os.path.relpath(path, LIBS).split(os.sep, 1)[1]
        with open(path, encoding='utf-8') as f:
            self.tree = ast.parse(f.read(), filename=path)
        self.globals = set()
        self.classes = set()
        self.import_names = set()
        for st in self.tree.body:
            if isinstance(st, ast.ClassDef):
                self.classes.add(st.name)
            elif isinstance(st, ast.Assign):
                for t in st.targets:
                    if isinstance(t, ast.Name):
                        self.globals.add(t.id)
            elif isinstance(st, (ast.Import, ast.ImportFrom)):
                for a in st.names:
                    self.import_names.add((a.asname or a.name).split('.')[0])
        self.summaries = []
        self._walk(self.tree.body, None)

    def _walk(self, body, cls):
        for st in body:
            if isinstance(st, ast.ClassDef):
                self._walk(st.body, st.name)
            elif isinstance(st, (ast.FunctionDef, ast.AsyncFunctionDef)):
                decs = _decorators(st)
                ident = f'{self.rel}::{cls + "." if cls else ""}{st.name}'
                s = Summary(ident, st, cls, st.name in ('__init__', '__new__', '__post_init__'), 'setter' in decs, decs)
                self._analyze(s)
                self.summaries.append(s)
            elif isinstance(st, (ast.If, ast.Try)):
                self._walk(st.body, cls)

    def _root(self, e, alias):
        """persistent root of an expression: 'self' | 'cls' | 'class:X' | 'global:x' | 'param:p' | None"""
        while True:
            if isinstance(e, ast.Name):
                if e.id in alias:
                    return alias[e.id]
                if e.id in self.classes:
                    return 'class:' + e.id
                if e.id in self.globals:
                    return 'global:' + e.id
                return None
            if isinstance(e, (ast.Attribute, ast.Subscript, ast.Starred)):
                e = e.value
                continue
            return None

    def _analyze(self, s):
        node = s.node
        alias = {}
        for i, p in enumerate(s.params):
            if i == 0 and s.cls and 'staticmethod' not in s.decorators:
                alias[p] = 'cls' if 'classmethod' in s.decorators else 'self'
            else:
                alias[p] = 'param:' + p
        for a in node.args.kwonlyargs:
            alias[a.arg] = 'param:' + a.arg
        declared_global = set()
        # flow-insensitive local alias taint (iterate to a fixpoint)
        for _ in range(3):
            for n in ast.walk(node):
                if isinstance(n, ast.Global):
                    declared_global.update(n.names)
                if isinstance(n, ast.Assign) and len(n.targets) == 1 and isinstance(n.targets[0], ast.Name):
                    r = self._root(n.value, alias)
                    if r and not isinstance(n.value, ast.Call) and n.targets[0].id not in s.params:
                        alias.setdefault(n.targets[0].id, r)
                if isinstance(n, ast.For) and isinstance(n.target, ast.Name):
                    r = self._root(n.iter, alias)
                    if r and not isinstance(n.iter, ast.Call):
                        alias.setdefault(n.target.id, r)

        def persistent(r):
            return r is not None and not r.startswith('param:')

        def note_write(target, line, how):
            if isinstance(target, ast.Name):
                if target.id in declared_global:
                    s.f1.append((line, f'{how} global {target.id}'))
                return
            if isinstance(target, (ast.Tuple, ast.List)):
                for e in target.elts:
                    note_write(e, line, how)
                return
            r = self._root(target, alias)
            what = f'{how} {ast.unparse(target)[:60]}'
            if persistent(r):
                s.f1.append((line, what + f' [root {r}]'))
            elif r:
                s.param_writes.setdefault(r[6:], []).append((line, what))

        for n in ast.walk(node):
            if n is not node and isinstance(n, (ast.FunctionDef, ast.Lambda)):
                continue
            if isinstance(n, ast.Assign):
                for t in n.targets:
                    note_write(t, n.lineno, 'assign')
            elif isinstance(n, (ast.AugAssign, ast.AnnAssign)):
                if not (isinstance(n, ast.AnnAssign) and n.value is None):
                    note_write(n.target, n.lineno, 'assign')
            elif isinstance(n, ast.Delete):
                for t in n.targets:
                    note_write(t, n.lineno, 'delete')
            elif isinstance(n, ast.Call):
                f = n.func
                if isinstance(f, ast.Attribute) and f.attr in MUTATORS:
                    r = self._root(f.value, alias)
                    what = f'{f.attr}() on {ast.unparse(f.value)[:60]}'
                    if persistent(r) and not isinstance(f.value, ast.Name) or (persistent(r) and isinstance(f.value, ast.Name) and r != 'self' and r != 'cls'):
                        s.f1.append((n.lineno, what + f' [root {r}]'))
                    elif r and r.startswith('param:'):
                        s.param_writes.setdefault(r[6:], []).append((n.lineno, what))
                fname = f.attr if isinstance(f, ast.Attribute) else (f.id if isinstance(f, ast.Name) else None)
                if fname in ('setattr', 'delattr') and n.args:
                    r = self._root(n.args[0], alias)
                    if persistent(r):
                        s.f1.append((n.lineno, f'{fname}({ast.unparse(n.args[0])[:40]}, ...) [root {r}]'))
                    elif r:
                        s.param_writes.setdefault(r[6:], []).append((n.lineno, fname))
                if fname in ('exec', 'eval', 'globals', 'vars', 'compile') and isinstance(f, ast.Name):
                    s.dynamic.append((n.lineno, fname + '()'))
                if fname:
                    for i, a in enumerate(n.args):
                        r = self._root(a, alias)
                        if r is None or isinstance(a, ast.Call):
                            continue
                        if r.startswith('param:'):
                            s.param_pass.append((r[6:], fname, i, n.lineno, isinstance(f, ast.Attribute)))
                        else:
                            s.persist_pass.append((r, fname, i, n.lineno, isinstance(f, ast.Attribute), ast.unparse(a)[:50]))
                # ambient reads
                txt = ast.unparse(f)
                if txt in ('datetime.now', 'datetime.today', 'datetime.utcnow', 'datetime.datetime.now', 'date.today',
                           'time.time', 'time.monotonic', 'os.getenv', 'locale.getlocale', 'locale.getdefaultlocale') \
                        or txt.startswith('random.') or txt in ('getcontext',):
                    s.ambient.append((n.lineno, txt))
            elif isinstance(n, ast.Attribute):
                if n.attr == '__dict__':
                    s.dynamic.append((n.lineno, '__dict__'))
                if ast.unparse(n) in ('os.environ',):
                    s.ambient.append((n.lineno, 'os.environ'))
        # default arguments evaluated at import
        for d in node.args.defaults + [x for x in node.args.kw_defaults if x is not None]:
            for n in ast.walk(d):
                if isinstance(n, ast.Call) and ast.unparse(n.func) in ('datetime.now', 'datetime.today'):
                    s.ambient.append((node.lineno, 'default argument ' + ast.unparse(n.func) + '() evaluated at import'))


def scan():
    mods = []
    for pkg in PACKAGES:
        root = os.path.join(LIBS, pkg)
        for dp, dn, fn in os.walk(root):
            for f in sorted(fn):
                if f.endswith('.py'):
                    mods.append(ModuleScan(os.path.join(dp, f)))
    return mods


def reference_default_guarded(summary, line):
    """datetime.now() is admissible only inside `if reference is None:` (or `if not reference:`)"""
    for n in ast.walk(summary.node):
        if isinstance(n, ast.If):
            t = ast.unparse(n.test)
            if ('is None' in t or t.startswith('not ')) and any(getattr(x, 'lineno', -1) == line for b in n.body for x in ast.walk(b)):
                return True
        if isinstance(n, ast.IfExp):
            t = ast.unparse(n.test)
            if ('is None' in t or 'is not None' in t) and getattr(n, 'lineno', -1) == line:
                return True
    return False


def run(tier='quick', seed=0):
    import time
    t0 = time.time()
    mods = scan()
    sums = [s for m in mods for s in m.summaries]
    by_name = {}
    for s in sums:
        by_name.setdefault(s.name, []).append(s)
    # F2: propagate parameter writes through calls (fixpoint)
    changed = True
    rounds = 0
    while changed and rounds < 10:
        changed = False
        rounds += 1
        for s in sums:
            for (p, callee, idx, line, is_method) in s.param_pass:
                for c in by_name.get(callee, []):
                    off = 1 if (c.cls and 'staticmethod' not in c.decorators and is_method) else 0
                    if idx + off < len(c.params) and c.params[idx + off] in c.param_writes and p not in s.param_writes:
                        s.param_writes.setdefault(p, []).append((line, f'passed to {c.ident} which writes its parameter {c.params[idx + off]}'))
                        changed = True
    # construction-only closure: a function all of whose call sites (by name) lie in __init__ or in construction-only
    # functions never runs during recognition
    callers = {}
    for s in sums:
        for n in ast.walk(s.node):
            if isinstance(n, ast.Call):
                f = n.func
                nm = f.attr if isinstance(f, ast.Attribute) else (f.id if isinstance(f, ast.Name) else None)
                if nm:
                    callers.setdefault(nm, set()).add(s.ident)
    ident_of = {s.ident: s for s in sums}
    cons = {s.ident for s in sums if s.is_init}
    grew = True
    while grew:
        grew = False
        for s in sums:
            if s.ident in cons:
                continue
            cs = callers.get(s.name)
            if cs and all(c in cons for c in cs):
                cons.add(s.ident)
                grew = True
    results = []
    n_f1 = n_f2 = n_f3 = n_fx = 0
    f1_bad, f2_bad, f3_bad, fx_bad = [], [], [], []
    for s in sums:
        n_f1 += 1
        if s.f1 and s.ident not in ALLOW_F1:
            if s.is_init or s.is_setter or s.ident in cons:
                # construction time: writing the object under construction is fine; class-level and module-level state
                # is shared by every model of the process and outlives the construction (a parser cache keyed too coarsely
                # hands one culture's parser to another)
                shared = [w for w in s.f1 if '[root self]' not in w[1]]
                if shared:
                    f1_bad.append((s.ident, shared[:4]))
            else:
                f1_bad.append((s.ident, s.f1[:4]))
        n_f2 += 1
        for (r, callee, idx, line, is_method, txt) in s.persist_pass:
            if s.is_init or s.ident in cons:
                continue
            for c in by_name.get(callee, []):
                off = 1 if (c.cls and 'staticmethod' not in c.decorators and is_method) else 0
                if idx + off < len(c.params) and c.params[idx + off] in c.param_writes and not c.is_init:
                    f2_bad.append((s.ident, line, f'{txt} (root {r}) passed to {c.ident} which writes parameter {c.params[idx + off]}: '
                                                  f'{c.param_writes[c.params[idx + off]][0][1]}'))
                    break
        n_f3 += 1
        for (line, what) in s.ambient:
            if what == 'getcontext':
                continue       # handled by the decimal obligation below
            if what.startswith('datetime.') and reference_default_guarded(s, line):
                continue
            if (s.ident, what) in REVIEWED_F3:
                continue
            f3_bad.append((s.ident, line, what))
        n_fx += 1
        if s.dynamic:
            fx_bad.append((s.ident, s.dynamic[:3]))
    # F3-decimal: every parse entry of the number parsers establishes the precision
    dec_bad = []
    n_dec = 0
    for s in sums:
        if s.name == 'parse' and s.cls and s.ident.startswith('recognizers_number/number/') and \
                s.ident.split('::')[0] in ('recognizers_number/number/parsers.py', 'recognizers_number/number/cjk_parsers.py'):
            n_dec += 1
            if 'precision' not in s.decorators:
                dec_bad.append(s.ident)
    # every use of the decimal context lies inside the number parser classes (reachable only through parse)
    ctx_outside = []
    for s in sums:
        if any(w == 'getcontext' for _, w in s.ambient):
            n_dec += 1
            if not (s.ident.split('::')[0] in ('recognizers_number/number/parsers.py', 'recognizers_number/number/cjk_parsers.py',
                                               'recognizers_number/number/chinese/parsers.py') and s.cls):
                ctx_outside.append(s.ident)

    def res(name, count, bad, detail_ok, assumptions=()):
        return dict(name=name, kind='closed', count=count, verdict='unsat' if not bad else 'sat',
                    detail=detail_ok if not bad else f'{len(bad)} offending site(s): ' + '; '.join(str(b) for b in bad[:8]),
                    offenders=[str(b) for b in bad[:50]], backend='frame-check', replayed=False,
                    seconds=0.0, assumptions=list(assumptions))
    results.append(res('F1/no-persistent-writes-outside-construction', n_f1, f1_bad,
                       f'{n_f1} functions: none writes self/cls/class/global state outside __init__, property setters and '
                       f'{len(ALLOW_F1)} allow-listed construction-time functions',
                       ['frame analysis is syntactic with name-based call resolution; results of calls are treated as fresh objects',
                        'allow-list: ' + '; '.join(f'{k} ({v})' for k, v in ALLOW_F1.items())]))
    results.append(res('F2/parameter-mutation-only-on-call-local-objects', n_f2, f2_bad,
                       f'{n_f2} functions: no self/global-rooted object is passed to a function that writes its parameter'))
    results.append(res('F3/no-ambient-reads', n_f3, f3_bad,
                       f'{n_f3} functions: no clock/random/environment/locale read except datetime.now() as the default for reference=None',
                       ['reviewed ambient reads whose value cannot reach a result: ' + '; '.join(f'{k[0]} [{k[1]}]: {v}' for k, v in REVIEWED_F3.items())]))
    results.append(res('F3/decimal-context-established-at-every-number-parser-entry', max(n_dec, 1), dec_bad + ctx_outside,
                       'every parse() of the number parsers runs under @precision; the decimal context is used only inside those classes'))
    results.append(res('FX/no-dynamic-features', n_fx, fx_bad, f'{n_fx} functions: no exec/eval/globals()/vars()/__dict__'))
    dt = time.time() - t0
    for r in results:
        r['seconds'] = round(dt / len(results), 2)
    return results


if __name__ == '__main__':
    for r in run():
        print(r['name'], r['verdict'], r['count'])
        if r['verdict'] != 'unsat':
            for o in r['offenders']:
                print('    ', o)
