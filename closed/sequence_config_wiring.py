"""Closed obligation for C13 (evaluated on the real package, exhaustive over the registered IP / GUID models): the pattern
a culture's extractor actually compiles is the resource constant whose language the regular-language obligations analyse
(ipv4_regex <- <Res>.Ipv4Regex, ipv6_regex <- <Res>.Ipv6Regex with <Res> = BaseIp for English and ChineseIp for Chinese;
GUID <- BaseGUID.GUIDRegex), and BaseIpExtractor tries them in the order IPv4, IPv6 under the right type names."""
import json
import os
import sys
import warnings

warnings.filterwarnings('ignore')
REPO = os.environ.get('VERIF_REPO', '/repo')
L = os.path.join(REPO, 'Python', 'libraries')
for p in ('recognizers-text', 'recognizers-number', 'recognizers-sequence'):
    sys.path.insert(0, os.path.join(L, p))
sys.path.append(os.path.join(os.path.dirname(os.path.dirname(os.path.abspath(__file__))), 'shims'))

from recognizers_sequence.resources.base_ip import BaseIp      # noqa: E402
from recognizers_sequence.resources.chinese_ip import ChineseIp      # noqa: E402
from recognizers_sequence.resources.base_GUID import BaseGUID      # noqa: E402
from recognizers_sequence.sequence.english.extractors import EnglishIpExtractorConfiguration, EnglishGUIDExtractor      # noqa: E402
from recognizers_sequence.sequence.chinese.extractors import ChineseIpExtractorConfiguration      # noqa: E402
from recognizers_sequence.sequence.extractors import BaseIpExtractor      # noqa: E402
from recognizers_sequence.sequence.constants import Constants      # noqa: E402

bad, n = [], 0


def same(what, got, want):
    global n
    n += 1
    if got != want:
        bad.append(f'{what}: compiled pattern {got[:60]!r}... is not the resource constant {want[:60]!r}...')


for name, cfg_cls, res in (('english', EnglishIpExtractorConfiguration, BaseIp), ('chinese', ChineseIpExtractorConfiguration, ChineseIp)):
    cfg = cfg_cls(0)
    same(f'{name}.ipv4_regex', cfg.ipv4_regex.pattern, res.Ipv4Regex)
    same(f'{name}.ipv6_regex', cfg.ipv6_regex.pattern, res.Ipv6Regex)
    ex = BaseIpExtractor(cfg)
    got = [(r.re.pattern, r.val) for r in ex.regexes]
    n += 1
    if got != [(res.Ipv4Regex, Constants.IP_REGEX_IPV4), (res.Ipv6Regex, Constants.IP_REGEX_IPV6)]:
        bad.append(f'{name}: BaseIpExtractor.regexes is not [Ipv4Regex as {Constants.IP_REGEX_IPV4}, Ipv6Regex as {Constants.IP_REGEX_IPV6}]')
g = EnglishGUIDExtractor()
got = [(r.re.pattern, r.val) for r in g.regexes]
n += 1
if got != [(BaseGUID.GUIDRegex, Constants.GUID_REGEX)]:
    bad.append('english: GUID extractor does not compile exactly BaseGUID.GUIDRegex')
print(json.dumps(dict(checked=n, bad=bad)))
