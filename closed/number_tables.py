"""Closed table facts for C04 (English): the preconditions of the __get_int_value layout contracts hold for the words the
standard spellings use, evaluated on the real parser configuration.  Prints JSON {bad: [...], checked: n}."""
import json
import os
import sys

REPO = os.environ.get('VERIF_REPO', '/repo')
L = os.path.join(REPO, 'Python', 'libraries')
for p in ('recognizers-text', 'recognizers-number'):
    sys.path.insert(0, os.path.join(L, p))
sys.path.insert(0, os.path.dirname(os.path.abspath(__file__)))
import number_spelling as S      # noqa: E402

from recognizers_number.number.english.parsers import EnglishNumberParserConfiguration      # noqa: E402

c = EnglishNumberParserConfiguration()
CM, OM, RM = c.cardinal_number_map, c.ordinal_number_map, c.round_number_map
bad = []
n = 0


def fact(ok, what):
    global n
    n += 1
    if not ok:
        bad.append(what)


for v, w in enumerate(S.ONES):
    fact(CM.get(w) == v and w not in OM and w not in RM, f'cardinal word {w!r} = {v}')
for k, w in enumerate(S.TENS):
    if w:
        fact(CM.get(w) == 10 * k and w not in OM and w not in RM, f'tens word {w!r} = {10 * k}')
for v, w in enumerate(S.ORD_ONES):
    if v:
        fact(OM.get(w) == v and w not in CM and w not in RM, f'ordinal word {w!r} = {v}')
for k, w in enumerate(S.ORD_TENS):
    if w:
        fact(OM.get(w) == 10 * k and w not in CM and w not in RM, f'ordinal tens word {w!r} = {10 * k}')
vals = [('hundred', 100), ('thousand', 1000), ('million', 10 ** 6), ('billion', 10 ** 9), ('trillion', 10 ** 12)]
for w, v in vals:
    fact(RM.get(w) == v, f'round word {w!r} = {v}')
    fact(RM.get(w + 'th') == v and OM.get(w + 'th') == v, f'round ordinal {w + "th"!r} = {v}')
sep = c.written_integer_separator_texts
fact(list(sep) == ['and'], f'written_integer_separator_texts == ["and"] (is {sep!r})')
fact('and' not in CM and 'and' not in OM and 'and' not in RM, "'and' is in no table")
fact(c.resolve_composite_number('and') == 0, "resolve_composite_number('and') == 0")
print(json.dumps(dict(bad=bad, checked=n)))
