"""Closed table obligations for C05: every spelling of the prefix/suffix tables wired into the parser configuration of a
registered unit model, written after (suffix) or before (prefix) a numeral, is recognised as one entity whose unit is
the table's canonical name.  Exhaustive over the finite tables; evaluated on the real package (it imports without the
missing third-party libraries).  Run as a script it prints the offenders as JSON."""
import importlib
import inspect
import json
import os
import sys

REPO = os.environ.get('VERIF_REPO', '/repo')
L = os.path.join(REPO, 'Python', 'libraries')
for p in ('recognizers-text', 'recognizers-number', 'recognizers-number-with-unit'):
    sys.path.insert(0, os.path.join(L, p))

CULTURES = {'english': 'en-us', 'spanish': 'es-es', 'french': 'fr-fr', 'portuguese': 'pt-br', 'german': 'de-de',
            'italian': 'it-it', 'dutch': 'nl-nl', 'chinese': 'zh-cn'}
MODELS = {'Currency': 'recognize_currency', 'Dimension': 'recognize_dimension', 'Temperature': 'recognize_temperature',
          'Age': 'recognize_age'}


def tables():
    """(culture, model, unit, spelling, is_prefix) for every entry of the wired tables"""
    for cul, code in CULTURES.items():
        try:
            ex = importlib.import_module(f'recognizers_number_with_unit.number_with_unit.{cul}.extractors')
        except Exception:
            continue
        for model in MODELS:
            cls = None
            for name, c in inspect.getmembers(ex, inspect.isclass):
                if name.endswith(f'{model}ExtractorConfiguration') and c.__module__ == ex.__name__:
                    cls = c
            if cls is None:
                continue
            try:
                cfg = cls()
            except Exception:
                continue
            for attr, is_prefix in (('suffix_list', False), ('prefix_list', True)):
                tab = getattr(cfg, attr, None) or {}
                for unit, spellings in tab.items():
                    if not unit:
                        continue
                    for sp in spellings.strip().split('|'):
                        if sp:
                            yield cul, code, model, unit, sp, is_prefix


def main():
    import recognizers_number_with_unit as R
    n = 0
    offenders = []
    only = set(sys.argv[1:])
    for cul, code, model, unit, sp, is_prefix in tables():
        if only and cul not in only:
            continue
        n += 1
        q = f'{sp} 5' if is_prefix else f'5 {sp}'
        fn = getattr(R, MODELS[model])
        try:
            rs = fn(q, code)
        except Exception as e:
            offenders.append([cul, model, unit, sp, f'exception {type(e).__name__}'])
            continue
        units = [r.resolution.get('unit') for r in rs if r.resolution]
        if not (len(rs) == 1 and units == [unit]):
            if not is_prefix:
                # CJK and some languages write the unit without a space
                rs2 = fn(f'5{sp}', code)
                units2 = [r.resolution.get('unit') for r in rs2 if r.resolution]
                if len(rs2) == 1 and units2 == [unit]:
                    continue
            offenders.append([cul, model, unit, sp, units])
    print(json.dumps({'entries': n, 'offenders': offenders}))


if __name__ == '__main__':
    main()
