"""Closed obligation for C17 (syntactic, exhaustive over the registration code): in every recogniser's
initialize_configuration, each register_model(<type>, Culture.<X>, lambda ...) builds its model from classes of
language <X> (class names that start with a language word must start with X's language word; an additional English
component next to the culture's own is allowed, as the CJK unit models have one), and no (type, culture) pair is registered
twice in one recogniser.  Evaluated on the real source with `ast`."""
import ast
import glob
import json
import os
import sys

REPO = os.environ.get('VERIF_REPO', '/repo')
L = os.path.join(REPO, 'Python', 'libraries')
LANGS = ['English', 'Spanish', 'French', 'Portuguese', 'German', 'Italian', 'Dutch', 'Chinese', 'Japanese', 'Korean', 'Turkish',
         'Swedish', 'Hindi', 'Arabic', 'Bulgarian']
# a culture constant -> the language word its classes carry
CULTURE_LANG = {'English': 'English', 'EnglishOthers': 'English', 'Spanish': 'Spanish', 'SpanishMexican': 'Spanish', 'French': 'French',
                'Portuguese': 'Portuguese', 'German': 'German', 'Italian': 'Italian', 'Dutch': 'Dutch', 'Chinese': 'Chinese',
                'Japanese': 'Japanese', 'Korean': 'Korean', 'Turkish': 'Turkish'}


def lang_of(name):
    for w in LANGS:
        if name.startswith(w):
            return w
    return None


def main():
    bad = []
    n = 0
    files = []
    for f in glob.glob(os.path.join(L, '*', '*', '**', '*recognizer*.py'), recursive=True):
        files.append(f)
    for f in sorted(set(files)):
        try:
            tree = ast.parse(open(f, encoding='utf-8').read())
        except SyntaxError:
            continue
        for cls in [c for c in ast.walk(tree) if isinstance(c, ast.ClassDef)]:
            for fn in [x for x in cls.body if isinstance(x, ast.FunctionDef) and x.name == 'initialize_configuration']:
                seen = {}
                for call in [c for c in ast.walk(fn) if isinstance(c, ast.Call) and isinstance(c.func, ast.Attribute)
                             and c.func.attr == 'register_model' and len(c.args) >= 3]:
                    n += 1
                    typ = call.args[0].value if isinstance(call.args[0], ast.Constant) else ast.unparse(call.args[0])
                    cul = call.args[1].attr if isinstance(call.args[1], ast.Attribute) else ast.unparse(call.args[1])
                    where = f'{os.path.relpath(f, REPO)}:{call.lineno}'
                    if (typ, cul) in seen:
                        bad.append(f'{where}: ({typ}, {cul}) is registered twice (first at line {seen[(typ, cul)]})')
                    seen[(typ, cul)] = call.lineno
                    want = CULTURE_LANG.get(cul)
                    if want is None:
                        bad.append(f'{where}: unknown culture constant {cul}')
                        continue
                    names = [x.id for x in ast.walk(call.args[2]) if isinstance(x, ast.Name) and lang_of(x.id) is not None]
                    own = [x for x in names if lang_of(x) == want]
                    if not own:
                        bad.append(f'{where}: model ({typ}, Culture.{cul}) uses no {want} class at all: {sorted(set(names))}')
                    for x in names:
                        lg = lang_of(x)
                        # a secondary English extractor/parser pair next to the culture's own is deliberate (CJK unit models)
                        if lg != want and not (lg == 'English' and own):
                            bad.append(f'{where}: model ({typ}, Culture.{cul}) is built from {x} (a {lg} class)')
    print(json.dumps(dict(checked=n, bad=bad)))


if __name__ == '__main__':
    main()
