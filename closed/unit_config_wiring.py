"""Closed obligation for C05 (syntactic, exhaustive over the culture packages): the unit parser configuration of a culture
hands ITS culture_info to the internal number parser configuration, so that the number inside a unit entity is formatted
exactly as that culture's number model formats it (es-mx and es-es share the Spanish classes and differ only here)."""
import ast
import glob
import json
import os

REPO = os.environ.get('VERIF_REPO', '/repo')
base = os.path.join(REPO, 'Python', 'libraries', 'recognizers-number-with-unit', 'recognizers_number_with_unit', 'number_with_unit')
bad, n = [], 0
for f in sorted(glob.glob(os.path.join(base, '*', 'parsers.py'))):
    tree = ast.parse(open(f, encoding='utf-8').read())
    for cls in [c for c in ast.walk(tree) if isinstance(c, ast.ClassDef) and c.name.endswith('NumberWithUnitParserConfiguration')]:
        for fn in [x for x in cls.body if isinstance(x, ast.FunctionDef) and x.name == '__init__']:
            params = [a.arg for a in fn.args.args]
            if 'culture_info' not in params:
                continue
            for call in [c for c in ast.walk(fn) if isinstance(c, ast.Call)]:
                name = call.func.id if isinstance(call.func, ast.Name) else (call.func.attr if isinstance(call.func, ast.Attribute) else '')
                if name.endswith('NumberParserConfiguration'):
                    n += 1
                    ok = (call.args and isinstance(call.args[0], ast.Name) and call.args[0].id == 'culture_info') or \
                        any(k.arg == 'culture_info' and isinstance(k.value, ast.Name) and k.value.id == 'culture_info' for k in call.keywords)
                    if not ok:
                        bad.append(f'{os.path.relpath(f, REPO)}:{call.lineno}: {cls.name}.__init__ builds {name}({ast.unparse(call)[len(name) + 1:-1]}) '
                                   'without its culture_info')
print(json.dumps(dict(checked=n, bad=bad)))
