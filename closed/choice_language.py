"""Closed obligations for C20 on the real TrueRegex / FalseRegex (as translated by the real
StringUtility.remove_unicode_matches, i.e. the text handed to the regex engine at run time).

  L1  polarity-disjoint        no string is a full match of both patterns                       (product automaton, all strings)
  L2  no-blank-edges           no full match is empty or begins / ends with white space         (product automaton, all strings)
  L3  lower-case-literals      every literal of the patterns is its own lower case: matching the lower-cased query without
                               IGNORECASE is matching the query case-insensitively                (syntactic, sre parse tree)
  L4  emoji-code-points        every escape of the resource (surrogate pair, BMP escape, \\u0001XXXX form) denotes a code point
                               that the translated pattern accepts, alone and followed by each skin-tone modifier
                               (automaton membership, cross-checked with the real engine)
  L5  alternatives-end-to-end  every alternative enumerated from the pattern (white-space runs of length 1 and 2), in lower, upper
                               and title case, alone and wrapped in punctuation / filler words, gives exactly one entity spanning it
                               with its polarity and a score in [0, 1]; neutral text gives nothing   (finite, real recogniser)

Prints a JSON list of obligation records."""
import json
import os
import re
import sys
import time

VERIF = os.path.dirname(os.path.dirname(os.path.abspath(__file__)))
REPO = os.environ.get('VERIF_REPO', '/repo')
L = os.path.join(REPO, 'Python', 'libraries')
sys.path.insert(0, VERIF)
sys.path.insert(0, os.path.join(VERIF, 'shims'))
for p in ('recognizers-text', 'recognizers-number', 'recognizers-choice'):
    sys.path.insert(0, os.path.join(L, p))

from relang import nfa as N      # noqa: E402

try:
    import re._parser as sre_parse
    import re._constants as C
except ImportError:      # pragma: no cover
    import sre_parse
    import sre_constants as C

SKIN = [chr(c) for c in range(0x1F3FB, 0x1F400)]
WRAPS = ['%s', '%s!', '(%s)', 'well, %s', 'hmm %s then', 'um... %s ?', '  %s  ', '%s.']
NEUTRAL = ['', '   ', 'hmm', 'well then, hmm', '?!', 'maybe later', 'know', 'yesterday', 'nothing', 'okay', 'udc4d', 'yesno']


def literals(tree, out):
    for op, av in tree:
        if op in (C.LITERAL, C.NOT_LITERAL):
            out.append(av)
        elif op == C.IN:
            for o, a in av:
                if o == C.LITERAL:
                    out.append(a)
                elif o == C.RANGE:
                    out.extend(a)
        elif op == C.BRANCH:
            for alt in av[1]:
                literals(alt, out)
        elif op == C.SUBPATTERN:
            literals(av[3], out)
        elif op in (C.MAX_REPEAT, C.MIN_REPEAT):
            literals(av[2], out)
    return out


def enumerate_language(tree):
    """finite sample of the language: repetitions taken lo and lo+1 times, \\s as one space, anchors dropped"""
    res = ['']
    for op, av in tree:
        if op == C.LITERAL:
            alts = [chr(av)]
        elif op == C.IN:
            alts = []
            for o, a in av:
                if o == C.LITERAL:
                    alts.append(chr(a))
                elif o == C.CATEGORY and a == C.CATEGORY_SPACE:
                    alts.append(' ')
                else:
                    raise N.NotRegular(f'class item {o} in enumeration')
        elif op == C.BRANCH:
            alts = []
            for alt in av[1]:
                alts.extend(enumerate_language(alt))
        elif op == C.SUBPATTERN:
            alts = enumerate_language(av[3])
        elif op in (C.MAX_REPEAT, C.MIN_REPEAT):
            lo, hi, sub = av
            one = enumerate_language(sub)
            alts = []
            for k in range(lo, min(hi, lo + 1) + 1):
                cur = ['']
                for _ in range(k):
                    cur = [a + b for a in cur for b in one]
                alts.extend(cur)
        elif op == C.AT:
            alts = ['']
        else:
            raise N.NotRegular(f'construct {op} in enumeration')
        res = [a + b for a in res for b in alts]
    return res


class Edge:
    """spec side for L2: tracks whether the string is empty / starts with a space / ends with a space"""
    def initial(self):
        return (True, False, False)

    def step(self, st, ch):
        empty, first_sp, last_sp = st
        return (False, ch.isspace() if empty else first_sp, ch.isspace())

    def bad(self, st):
        return st[0] or st[1] or st[2]


def product_search(sims, extra, accept, alpha):
    """BFS over the tuple of deterministic simulations (and optional spec automaton); returns a witness string for which
    accept(state tuple) holds, or None; second result: explored states"""
    from collections import deque
    start = tuple(s.initial() for s in sims) + tuple(e.initial() for e in extra)
    seen = {start: None}
    q = deque([start])
    n = 0
    k = len(sims)
    while q:
        cur = q.popleft()
        n += 1
        if accept(cur):
            w = []
            x = cur
            while seen[x] is not None:
                x, ch = seen[x]
                w.append(ch)
            return ''.join(reversed(w)), n
        if n > 400000:
            raise N.NotRegular('product too large')
        for ch in alpha:
            nxt = tuple(sims[i].step(cur[i], ch) for i in range(k)) + tuple(extra[j].step(cur[k + j], ch) for j in range(len(extra)))
            if all(sims[i].dead(nxt[i]) for i in range(k)):
                continue
            if nxt not in seen:
                seen[nxt] = (cur, ch)
                q.append(nxt)
    return None, n


def joint_alphabet(nfas, extra_chars):
    classes = {}
    cands = [chr(c) for c in range(0, 0x3000)] + [chr(c) for c in (0x4E2D, 0xFF10, 0x1F600)] + list(extra_chars)
    for ch in cands:
        key = tuple(a.pred(ch) for nf in nfas for a in nf.atoms) + (N.is_word(ch), ch.isspace())
        if key not in classes:
            classes[key] = ch
    return sorted(classes.values())


def decode_escapes(pattern):
    """code points spelled in the resource: surrogate pairs, \\u0001XXXX, and single BMP escapes"""
    out = []
    rest = pattern
    for m in re.finditer(r'\\u([dD][89abAB][0-9a-fA-F]{2})\\u([dD][c-fC-F][0-9a-fA-F]{2})', pattern):
        hi, lo = int(m.group(1), 16), int(m.group(2), 16)
        out.append((m.group(0), 0x10000 + ((hi - 0xD800) << 10) + (lo - 0xDC00)))
    rest = re.sub(r'\\u([dD][89abAB][0-9a-fA-F]{2})\\u([dD][c-fC-F][0-9a-fA-F]{2})', '', rest)
    for m in re.finditer(r'\\u0001([0-9a-fA-F]{4})', rest):
        out.append((m.group(0), 0x10000 + int(m.group(1), 16)))
    rest = re.sub(r'\\u0001([0-9a-fA-F]{4})', '', rest)
    for m in re.finditer(r'\\u([0-9a-fA-F]{4})', rest):
        out.append((m.group(0), int(m.group(1), 16)))
    return out


def main():
    import regex
    from recognizers_text.utilities import StringUtility, RegExpUtility
    from recognizers_choice.resources.english_choice import EnglishChoice
    from recognizers_choice import recognize_boolean
    out = []
    raw = {'true': EnglishChoice.TrueRegex, 'false': EnglishChoice.FalseRegex}
    run = {k: StringUtility.remove_unicode_matches(RegExpUtility.get_safe_reg_exp(v)) for k, v in raw.items()}
    skin_raw = EnglishChoice.SkinToneRegex

    def rec(name, t0, verdict, detail, **kw):
        d = dict(name=name, kind='closed', verdict=verdict, detail=detail, seconds=round(time.time() - t0, 2), count=1)
        d.update(kw)
        out.append(d)
    try:
        nf = {k: N.build(v, 0) for k, v in run.items()}          # finditer(py_regex, lowered) runs without flags
        trees = {k: sre_parse.parse(v, 0) for k, v in run.items()}
    except (N.NotRegular, re.error) as e:
        rec('relang/choice-patterns', time.time(), 'unknown', f'pattern outside the regular subset: {e}')
        print(json.dumps(out))
        return
    lit = set()
    for t in trees.values():
        lit.update(chr(c) for c in literals(t, []))
    alpha = joint_alphabet(list(nf.values()), lit)
    sims = {k: N.SubsetSim(v, alpha) for k, v in nf.items()}
    backend = 'relang-product'
    assume = ['regular-language checker relang/nfa.py (sre parse tree -> NFA, exact character-class alphabet)']

    # L1
    t0 = time.time()
    w, n = product_search([sims['true'], sims['false']], [], lambda st: sims['true'].accepting(st[0]) and sims['false'].accepting(st[1]), alpha)
    if w is None:
        rec('relang/polarity-disjoint', t0, 'unsat', f'no string is a full match of both TrueRegex and FalseRegex: {n} product states',
            backend=backend, assumptions=assume)
    else:
        real = bool(regex.fullmatch(run['true'], w)) and bool(regex.fullmatch(run['false'], w))
        rec('relang/polarity-disjoint', t0, 'sat', f'{w!r} is a full match of both patterns; real engine agrees: {real}',
            backend=backend, witness=w, replayed=real)
    # L2
    for k in ('true', 'false'):
        t0 = time.time()
        e = Edge()
        w, n = product_search([sims[k]], [e], lambda st, _k=k, _e=e: sims[_k].accepting(st[0]) and _e.bad(st[1]), alpha)
        if w is None:
            rec(f'relang/no-blank-edges:{k}', t0, 'unsat', f'every full match of the {k} pattern is non-empty and neither begins nor '
                f'ends with white space: {n} product states', backend=backend, assumptions=assume)
        else:
            real = bool(regex.fullmatch(run[k], w))
            rec(f'relang/no-blank-edges:{k}', t0, 'sat', f'{w!r} is a full match of the {k} pattern; real engine agrees: {real}',
                backend=backend, witness=w, replayed=real)
    # L3
    for k in ('true', 'false'):
        t0 = time.time()
        bad = sorted({chr(c) for c in literals(trees[k], []) if chr(c).lower() != chr(c)})
        rec(f'syntactic/lower-case-literals:{k}', t0, 'sat' if bad else 'unsat',
            (f'literals {bad!r} are not their own lower case: they can never match the lower-cased query' if bad else
             f'every literal of the {k} pattern is its own lower case'), backend='closed-eval', witness=''.join(bad) or None,
            replayed=bool(bad))
    # L4
    for k in ('true', 'false'):
        t0 = time.time()
        missing = []
        esc = [(e, cp) for e, cp in decode_escapes(raw[k]) if (e, cp) not in decode_escapes(skin_raw)]
        for e, cp in esc:
            for s in [chr(cp)] + [chr(cp) + t for t in SKIN]:
                st = sims[k].initial()
                ok = True
                for ch in s:
                    rep = next((a for a in alpha if a == ch), None)
                    if rep is None:
                        cls = tuple(a.pred(ch) for nfx in nf.values() for a in nfx.atoms) + (N.is_word(ch), ch.isspace())
                        rep = next(a for a in alpha if tuple(x.pred(a) for nfx in nf.values() for x in nfx.atoms) + (N.is_word(a), a.isspace()) == cls)
                    st = sims[k].step(st, rep)
                ok = sims[k].accepting(st)
                real = bool(regex.fullmatch(run[k], s))
                if not ok or not real:
                    missing.append([e, 'U+%04X' % cp, s, ok, real])
        if not esc:
            rec(f'emoji/code-points:{k}', t0, 'unknown', 'no escapes found in the resource pattern')
        elif missing:
            rec(f'emoji/code-points:{k}', t0, 'sat', f'{len(missing)} emoji spellings of the resource are not accepted by the translated '
                f'pattern, e.g. {missing[:3]}', backend=backend, witness=missing[0][2], replayed=not missing[0][4])
        else:
            rec(f'emoji/code-points:{k}', t0, 'unsat', f'{len(esc)} escapes of the resource x (alone + 5 skin tones) accepted by the '
                f'translated {k} pattern (automaton and real engine)', backend=backend, assumptions=assume)
    # L5
    want = {'true': True, 'false': False}
    for k in ('true', 'false'):
        t0 = time.time()
        try:
            alts = sorted(set(enumerate_language(trees[k])))
        except N.NotRegular as e:
            rec(f'alternatives/end-to-end:{k}', t0, 'unknown', str(e))
            continue
        bad = []
        cases = 0
        for a in alts:
            if not a:
                continue
            for v in sorted({a, a.upper(), a.title()}):
                if len(v) != len(a):
                    continue
                for wr in WRAPS:
                    q = wr % v
                    cases += 1
                    try:
                        res = recognize_boolean(q, 'en-us')
                    except Exception as ex:      # noqa
                        bad.append([q, f'raised {type(ex).__name__}: {ex}'])
                        continue
                    st = wr.index('%s')
                    ok = (len(res) == 1 and res[0].start == st and res[0].end == st + len(v) - 1 and res[0].text == v and
                          res[0].resolution.get('value') is want[k] and 0 <= res[0].resolution.get('score') <= 1 and
                          res[0].type_name == 'boolean')
                    if not ok:
                        bad.append([q, [(r.text, r.start, r.end, r.resolution) for r in res]])
        if bad:
            rec(f'alternatives/end-to-end:{k}', t0, 'sat', f'{len(bad)} of {cases} queries do not give exactly one {k} entity spanning the '
                f'expression, e.g. {bad[:3]}', backend='closed-eval', witness=bad[0][0], replayed=True, offenders=bad[:50],
                bounded=f'alternatives/end-to-end:{k}: BOUNDED stand-in')
        else:
            rec(f'alternatives/end-to-end:{k}', t0, 'unsat', f'{len(alts)} alternatives x case x {len(WRAPS)} wrappers = {cases} queries '
                f'each give exactly one {k} entity spanning the expression', backend='closed-eval',
                bounded=f'alternatives/end-to-end:{k}: BOUNDED stand-in (every enumerated alternative x 3 letter cases, but only {len(WRAPS)} '
                        f'surrounding texts; white-space runs of length 1 and 2): {cases} queries on the real recogniser')
    t0 = time.time()
    bad = []
    for q in NEUTRAL:
        try:
            res = recognize_boolean(q, 'en-us')
        except Exception as ex:      # noqa
            bad.append([q, f'raised {type(ex).__name__}: {ex}'])
            continue
        if res:
            bad.append([q, [(r.text, r.start, r.end, r.resolution) for r in res]])
    rec('alternatives/neutral-text-gives-nothing', t0, 'sat' if bad else 'unsat',
        (f'{bad[:3]}' if bad else f'{len(NEUTRAL)} neutral strings (incl. empty, blank, words containing a listed word) give nothing'),
        backend='closed-eval', witness=bad[0][0] if bad else None, replayed=bool(bad),
        bounded=f'alternatives/neutral-text-gives-nothing: BOUNDED stand-in ({len(NEUTRAL)} neutral strings)')
    print(json.dumps(out))


if __name__ == '__main__':
    main()
